//! C19 building blocks: response alphabet (`RSpec`), DNS message assembler with the
//! compression-pointer mutations of the statement, and the INDEPENDENT parsers used by the
//! oracle (no `smoltcp::wire` anywhere in this file; offsets from RFC 791 / 8200 / 768 / 1035).

pub type Name = Vec<Vec<u8>>;

pub fn name_from_str(s: &str) -> Name {
    s.split('.').filter(|l| !l.is_empty()).map(|l| l.as_bytes().to_vec()).collect()
}
pub fn flat(n: &Name) -> Vec<u8> {
    let mut v = vec![];
    for l in n {
        v.push(l.len() as u8);
        v.extend_from_slice(l);
    }
    v.push(0);
    v
}
pub fn show(n: &Name) -> String {
    if n.is_empty() {
        return ".".into();
    }
    n.iter()
        .map(|l| {
            if l.len() > 8 {
                format!("{}..({})", String::from_utf8_lossy(&l[..4]), l.len())
            } else {
                String::from_utf8_lossy(l).to_string()
            }
        })
        .collect::<Vec<_>>()
        .join(".")
}
/// DNS names compare case-insensitively (RFC 1035 2.3.3); smoltcp compares bytes exactly, which
/// is stricter, so the lenient comparison can only make the oracle accept more.
pub fn name_eq(a: &Name, b: &Name) -> bool {
    a.len() == b.len() && a.iter().zip(b.iter()).all(|(x, y)| x.eq_ignore_ascii_case(y))
}
pub fn lower(n: &Name) -> Name {
    n.iter().map(|l| l.to_ascii_lowercase()).collect()
}

pub const T_A: u16 = 1;
pub const T_CNAME: u16 = 5;
pub const T_AAAA: u16 = 28;

// ---------------------------------------------------------------------------------------
// Response alphabet
// ---------------------------------------------------------------------------------------

#[derive(Clone, Copy, Debug, PartialEq, Eq, Hash, PartialOrd, Ord)]
pub enum Src {
    /// configured server number i
    Srv(u8),
    /// an address that is not a configured server
    Other,
    /// the address that `update_servers` can install as a replacement server
    Alt,
}
#[derive(Clone, Copy, Debug, PartialEq, Eq, Hash, PartialOrd, Ord)]
pub enum SPort {
    Dns53,
    Mdns5353,
    P1053,
}
#[derive(Clone, Copy, Debug, PartialEq, Eq, Hash, PartialOrd, Ord)]
pub enum Sel {
    Own,
    /// the other concurrent query's value (or own+1 when there is a single query)
    Other,
}
#[derive(Clone, Copy, Debug, PartialEq, Eq, Hash, PartialOrd, Ord)]
pub enum Hdr {
    Ok,
    NxDomain,
    ServFail,
    Tc,
    NotResponse,
    OpStatus,
}
/// Names: Q = the queried name, O = the other query's name (or an unrelated one), T/U = CNAME
/// targets, V = unrelated.
#[derive(Clone, Copy, Debug, PartialEq, Eq, Hash, PartialOrd, Ord)]
pub enum Nm {
    Q,
    O,
    T,
    U,
    V,
}
#[derive(Clone, Copy, Debug, PartialEq, Eq, Hash, PartialOrd, Ord)]
pub enum QSec {
    /// one question with this name and the query's type (Name(Q) = the good one)
    Name(Nm),
    /// queried name, other type (A <-> AAAA)
    OtherType,
    /// qdcount = 0
    None,
    /// the good question twice (qdcount = 2)
    Two,
}
#[derive(Clone, Copy, Debug, PartialEq, Eq, Hash, PartialOrd, Ord)]
pub enum Ans {
    /// one address record (family of the query) owned by the name
    AFor(Nm),
    /// [V addr, Q addr]
    OtherThenName,
    /// [Q->T, T addr]
    Cname1In,
    /// [T addr, Q->T]
    Cname1Out,
    /// [Q->T, T->U, U addr]
    Cname2In,
    /// [U addr, T->U, Q->T]
    Cname2Out,
    /// [Q->T, U addr, T->U]
    Cname2Mixed,
    /// [Q->T]
    CnameDangling,
    /// [Q->T, V addr]
    CnameUnrelated,
    /// [Q addr, Q->T, T addr]
    AThenCname,
    /// result slots + 1 address records for Q
    ManyA,
    /// one record of the OTHER family for Q (AAAA for an A query, A for an AAAA query)
    WrongFamily,
    Empty,
    /// [Q->LONG, LONG addr] with LONG longer than DNS_MAX_NAME_SIZE
    CnameTooLong,
    /// [T->U, U addr]
    ChainFromT,
    /// > 2 KiB response: [V TXT pad, F1 addr with F1 stored at offset 0x40C, V TXT pad, F2 addr with
    /// F2 stored at 0x80C, <pointer to 0x40C> addr]: three address records for FOREIGN names; the
    /// last owner is a compression pointer to an offset >= 0x400 (correct reading: nothing for Q)
    BigForeign,
    /// > 1 KiB GOOD response: [Q TXT pad, Q->T with T stored beyond 0x400, <pointer to it> addr]
    BigCname,
}
#[derive(Clone, Copy, Debug, PartialEq, Eq, Hash, PartialOrd, Ord)]
pub enum Pos {
    QName,
    Owner0,
    Rdata0,
    Owner1,
    /// owner name of the last record (only tagged when there are more than two records)
    OwnerLast,
}
#[derive(Clone, Copy, Debug, PartialEq, Eq, Hash, PartialOrd, Ord)]
pub enum Enc {
    /// standard compression: backward pointers to earlier occurrences
    Back,
    /// no compression
    Plain,
    /// question name = FORWARD pointer to the first answer's owner name (written in full)
    FwdQ,
    /// question name = pointer to itself
    SelfQ,
    /// first answer's owner name = pointer to itself
    SelfOwner,
    /// first answer's CNAME rdata = pointer to itself
    SelfRdata,
    /// question name -> owner name of answer 0 -> question name
    Loop2,
    /// the name field at Pos is replaced by a pointer to this absolute offset
    PtrAt(Pos, u16),
}
/// Header count fields vs. what the body really contains.
#[derive(Clone, Copy, Debug, PartialEq, Eq, Hash, PartialOrd, Ord)]
pub enum Cnt {
    Honest,
    /// QDCOUNT overwritten with this value, body unchanged
    Qd(u16),
    /// ANCOUNT = 0 although the answer records are present
    An0,
    /// ANCOUNT = records present + 2
    AnMore,
}
#[derive(Clone, Copy, Debug, PartialEq, Eq, Hash, PartialOrd, Ord)]
pub struct RSpec {
    pub src: Src,
    pub sport: SPort,
    pub dport: Sel,
    pub txid: Sel,
    pub hdr: Hdr,
    pub q: QSec,
    pub ans: Ans,
    pub enc: Enc,
    /// DNS payload truncated to this many octets (UDP length adjusted)
    pub cut: Option<u16>,
    pub cnt: Cnt,
}

pub struct NameSet {
    pub q: Name,
    pub o: Name,
    pub t: Name,
    pub u: Name,
    pub v: Name,
    pub long: Name,
}
impl NameSet {
    pub fn get(&self, n: Nm) -> &Name {
        match n {
            Nm::Q => &self.q,
            Nm::O => &self.o,
            Nm::T => &self.t,
            Nm::U => &self.u,
            Nm::V => &self.v,
        }
    }
}

#[derive(Clone, Debug)]
pub enum RData {
    A([u8; 4]),
    Aaaa([u8; 16]),
    Cname(Name),
    /// record of another type (TXT) whose rdata is zero padding up to this absolute offset, so
    /// that the NEXT record starts exactly there
    PadTo(usize),
}
#[derive(Clone, Debug)]
pub struct Rec {
    pub owner: Name,
    pub data: RData,
}

fn code(n: Nm) -> u8 {
    match n {
        Nm::Q => 1,
        Nm::O => 2,
        Nm::T => 3,
        Nm::U => 4,
        Nm::V => 9,
    }
}
/// Address record; the address encodes owner and index so that every record is distinguishable.
pub fn addr(ns: &NameSet, n: Nm, idx: u8, v6: bool) -> Rec {
    let data = if v6 {
        let mut a = [0u8; 16];
        a[0] = 0xfd;
        a[1] = 0x19;
        a[14] = code(n);
        a[15] = idx;
        RData::Aaaa(a)
    } else {
        RData::A([10, 19, code(n), idx])
    };
    Rec { owner: ns.get(n).clone(), data }
}
pub fn cname(ns: &NameSet, a: Nm, b: Nm) -> Rec {
    Rec { owner: ns.get(a).clone(), data: RData::Cname(ns.get(b).clone()) }
}

pub fn records(ns: &NameSet, ans: Ans, v6: bool, result_slots: usize) -> Vec<Rec> {
    use Nm::*;
    match ans {
        Ans::AFor(n) => vec![addr(ns, n, 1, v6)],
        Ans::OtherThenName => vec![addr(ns, V, 1, v6), addr(ns, Q, 1, v6)],
        Ans::Cname1In => vec![cname(ns, Q, T), addr(ns, T, 1, v6)],
        Ans::Cname1Out => vec![addr(ns, T, 1, v6), cname(ns, Q, T)],
        Ans::Cname2In => vec![cname(ns, Q, T), cname(ns, T, U), addr(ns, U, 1, v6)],
        Ans::Cname2Out => vec![addr(ns, U, 1, v6), cname(ns, T, U), cname(ns, Q, T)],
        Ans::Cname2Mixed => vec![cname(ns, Q, T), addr(ns, U, 1, v6), cname(ns, T, U)],
        Ans::CnameDangling => vec![cname(ns, Q, T)],
        Ans::CnameUnrelated => vec![cname(ns, Q, T), addr(ns, V, 1, v6)],
        Ans::AThenCname => vec![addr(ns, Q, 1, v6), cname(ns, Q, T), addr(ns, T, 1, v6)],
        Ans::ManyA => (0..=result_slots).map(|i| addr(ns, Q, 1 + i as u8, v6)).collect(),
        Ans::WrongFamily => vec![addr(ns, Q, 1, !v6)],
        Ans::Empty => vec![],
        Ans::CnameTooLong => {
            let mut a = [0u8; 16];
            a[0] = 0xfd;
            a[15] = 0x77;
            vec![
                Rec { owner: ns.q.clone(), data: RData::Cname(ns.long.clone()) },
                Rec { owner: ns.long.clone(), data: if v6 { RData::Aaaa(a) } else { RData::A([10, 19, 77, 1]) } },
            ]
        }
        Ans::ChainFromT => vec![cname(ns, T, U), addr(ns, U, 1, v6)],
        Ans::BigForeign => {
            let suffix = ns.q.last().cloned().unwrap_or_default();
            let f = |l: &str| -> Name { vec![l.as_bytes().to_vec(), suffix.clone()] };
            let mk = |owner: Name, idx: u8| {
                let mut r = addr(ns, V, idx, v6);
                r.owner = owner;
                r
            };
            vec![
                Rec { owner: ns.v.clone(), data: RData::PadTo(0x40c) },
                mk(f("f1"), 11),
                Rec { owner: ns.v.clone(), data: RData::PadTo(0x80c) },
                mk(f("f2"), 12),
                mk(f("f1"), 13),
            ]
        }
        Ans::BigCname => vec![
            Rec { owner: ns.q.clone(), data: RData::PadTo(0x410) },
            cname(ns, Q, T),
            addr(ns, T, 1, v6),
        ],
    }
}

struct Asm {
    buf: Vec<u8>,
    compress: bool,
    /// first occurrence of each name suffix (flat wire form) -> offset
    seen: Vec<(Vec<u8>, usize)>,
    pos: [Option<usize>; 5],
    /// (offset of a 2-byte pointer placeholder, target)
    patches: Vec<(usize, Target)>,
    forced: Vec<(Pos, Target)>,
}
#[derive(Clone, Copy)]
enum Target {
    Abs(u16),
    PosOf(Pos),
}
fn pidx(p: Pos) -> usize {
    match p {
        Pos::QName => 0,
        Pos::Owner0 => 1,
        Pos::Rdata0 => 2,
        Pos::Owner1 => 3,
        Pos::OwnerLast => 4,
    }
}
impl Asm {
    /// Emit a name field; `tag` marks the fields that encodings can replace. `register` = later
    /// names may point here.
    fn name(&mut self, n: &Name, tag: Option<Pos>, register: bool) {
        if let Some(p) = tag {
            self.pos[pidx(p)] = Some(self.buf.len());
            if let Some(&(_, t)) = self.forced.iter().find(|(fp, _)| *fp == p) {
                self.patches.push((self.buf.len(), t));
                self.buf.extend_from_slice(&[0xc0, 0x00]);
                return;
            }
        }
        for i in 0..n.len() {
            let suffix = flat(&n[i..].to_vec());
            if self.compress {
                if let Some((_, off)) = self.seen.iter().find(|(s, _)| *s == suffix) {
                    self.buf.push(0xc0 | ((off >> 8) as u8));
                    self.buf.push(*off as u8);
                    return;
                }
            }
            if register && self.buf.len() < 0x3fff {
                self.seen.push((suffix, self.buf.len()));
            }
            self.buf.push(n[i].len() as u8);
            self.buf.extend_from_slice(&n[i]);
        }
        self.buf.push(0);
    }
    fn u16(&mut self, v: u16) {
        self.buf.extend_from_slice(&v.to_be_bytes());
    }
}

/// Build the DNS payload for `spec` answering a query (name set `ns`, `qtype`) with `txid`.
pub fn build_payload(ns: &NameSet, qtype: u16, spec: &RSpec, txid: u16, result_slots: usize) -> Vec<u8> {
    let recs = records(ns, spec.ans, qtype == T_AAAA, result_slots);
    build_with_records(ns, qtype, spec, txid, &recs)
}

/// Same, with an explicit answer section (`spec.ans` is ignored).
pub fn build_with_records(ns: &NameSet, qtype: u16, spec: &RSpec, txid: u16, recs: &[Rec]) -> Vec<u8> {
    let v6 = qtype == T_AAAA;
    let mut forced: Vec<(Pos, Target)> = vec![];
    match spec.enc {
        Enc::Back | Enc::Plain => {}
        Enc::FwdQ => {
            forced.push((Pos::QName, Target::PosOf(Pos::Owner0)));
        }
        Enc::SelfQ => forced.push((Pos::QName, Target::PosOf(Pos::QName))),
        Enc::SelfOwner => forced.push((Pos::Owner0, Target::PosOf(Pos::Owner0))),
        Enc::SelfRdata => forced.push((Pos::Rdata0, Target::PosOf(Pos::Rdata0))),
        Enc::Loop2 => {
            forced.push((Pos::QName, Target::PosOf(Pos::Owner0)));
            forced.push((Pos::Owner0, Target::PosOf(Pos::QName)));
        }
        Enc::PtrAt(p, off) => forced.push((p, Target::Abs(off))),
    }
    let mut a = Asm {
        buf: Vec::with_capacity(96),
        compress: spec.enc != Enc::Plain,
        seen: vec![],
        pos: [None; 5],
        patches: vec![],
        forced,
    };
    let (rcode, mut flags): (u16, u16) = match spec.hdr {
        Hdr::Ok => (0, 0x8180),
        Hdr::NxDomain => (3, 0x8180),
        Hdr::ServFail => (2, 0x8180),
        Hdr::Tc => (0, 0x8180 | 0x0200),
        Hdr::NotResponse => (0, 0x0100),
        Hdr::OpStatus => (0, 0x8180 | (1 << 11)),
    };
    flags |= rcode;
    let other_type = if v6 { T_A } else { T_AAAA };
    let questions: Vec<(Name, u16)> = match spec.q {
        QSec::Name(n) => vec![(ns.get(n).clone(), qtype)],
        QSec::OtherType => vec![(ns.q.clone(), other_type)],
        QSec::None => vec![],
        QSec::Two => vec![(ns.q.clone(), qtype), (ns.q.clone(), qtype)],
    };
    a.u16(txid);
    a.u16(flags);
    a.u16(questions.len() as u16);
    a.u16(recs.len() as u16);
    a.u16(0);
    a.u16(0);
    for (i, (n, t)) in questions.iter().enumerate() {
        a.name(n, if i == 0 { Some(Pos::QName) } else { None }, true);
        a.u16(*t);
        a.u16(1);
    }
    for (i, r) in recs.iter().enumerate() {
        let tag = match i {
            0 => Some(Pos::Owner0),
            1 => Some(Pos::Owner1),
            _ if i + 1 == recs.len() => Some(Pos::OwnerLast),
            _ => None,
        };
        a.name(&r.owner, tag, true);
        match &r.data {
            RData::A(x) => {
                a.u16(T_A);
                a.u16(1);
                a.buf.extend_from_slice(&[0, 0, 0, 60]);
                a.u16(4);
                a.buf.extend_from_slice(x);
            }
            RData::Aaaa(x) => {
                a.u16(T_AAAA);
                a.u16(1);
                a.buf.extend_from_slice(&[0, 0, 0, 60]);
                a.u16(16);
                a.buf.extend_from_slice(x);
            }
            RData::PadTo(target) => {
                a.u16(16); // TXT
                a.u16(1);
                a.buf.extend_from_slice(&[0, 0, 0, 60]);
                let l = target.saturating_sub(a.buf.len() + 2);
                a.u16(l as u16);
                a.buf.extend(std::iter::repeat(0u8).take(l));
            }
            RData::Cname(n) => {
                a.u16(T_CNAME);
                a.u16(1);
                a.buf.extend_from_slice(&[0, 0, 0, 60]);
                let lenpos = a.buf.len();
                a.u16(0);
                let start = a.buf.len();
                a.name(n, if i == 0 { Some(Pos::Rdata0) } else { None }, true);
                let l = (a.buf.len() - start) as u16;
                a.buf[lenpos..lenpos + 2].copy_from_slice(&l.to_be_bytes());
            }
        }
    }
    let patches = a.patches.clone();
    for (at, t) in patches {
        let off = match t {
            Target::Abs(o) => o as usize,
            // a target field that does not exist in this message: point just past the end
            Target::PosOf(p) => a.pos[pidx(p)].unwrap_or(a.buf.len()),
        };
        a.buf[at] = 0xc0 | ((off >> 8) as u8 & 0x3f);
        a.buf[at + 1] = off as u8;
    }
    let mut out = a.buf;
    match spec.cnt {
        Cnt::Honest => {}
        Cnt::Qd(n) => out[4..6].copy_from_slice(&n.to_be_bytes()),
        Cnt::An0 => out[6..8].copy_from_slice(&[0, 0]),
        Cnt::AnMore => {
            let n = recs.len() as u16 + 2;
            out[6..8].copy_from_slice(&n.to_be_bytes())
        }
    }
    if let Some(c) = spec.cut {
        out.truncate(c as usize);
    }
    out
}

// ---------------------------------------------------------------------------------------
// IPv4/UDP framing of stimulus (hand written; RFC 791/768/1071)
// ---------------------------------------------------------------------------------------

fn csum(parts: &[&[u8]]) -> u16 {
    let mut sum: u32 = 0;
    let mut carry: Option<u8> = None;
    for p in parts {
        for &b in p.iter() {
            match carry.take() {
                None => carry = Some(b),
                Some(h) => sum += ((h as u32) << 8) | b as u32,
            }
        }
    }
    if let Some(h) = carry {
        sum += (h as u32) << 8;
    }
    while sum >> 16 != 0 {
        sum = (sum & 0xffff) + (sum >> 16);
    }
    !(sum as u16)
}

pub fn udp4_frame(src: [u8; 4], dst: [u8; 4], sport: u16, dport: u16, payload: &[u8]) -> Vec<u8> {
    let ulen = 8 + payload.len();
    let total = 20 + ulen;
    let mut f = vec![0u8; total];
    f[0] = 0x45;
    f[2..4].copy_from_slice(&(total as u16).to_be_bytes());
    f[6] = 0x40; // DF
    f[8] = 64;
    f[9] = 17;
    f[12..16].copy_from_slice(&src);
    f[16..20].copy_from_slice(&dst);
    let c = csum(&[&f[..20]]);
    f[10..12].copy_from_slice(&c.to_be_bytes());
    f[20..22].copy_from_slice(&sport.to_be_bytes());
    f[22..24].copy_from_slice(&dport.to_be_bytes());
    f[24..26].copy_from_slice(&(ulen as u16).to_be_bytes());
    f[28..].copy_from_slice(payload);
    let mut ph = [0u8; 12];
    ph[0..4].copy_from_slice(&src);
    ph[4..8].copy_from_slice(&dst);
    ph[9] = 17;
    ph[10..12].copy_from_slice(&(ulen as u16).to_be_bytes());
    let mut c = csum(&[&ph, &f[20..]]);
    if c == 0 {
        c = 0xffff;
    }
    f[26..28].copy_from_slice(&c.to_be_bytes());
    f
}

// ---------------------------------------------------------------------------------------
// Independent parser of what smoltcp EMITS (queries)
// ---------------------------------------------------------------------------------------

#[derive(Clone, Debug, PartialEq, Eq)]
pub enum TxFrame {
    Query {
        dst: Vec<u8>,
        sport: u16,
        dport: u16,
        txid: u16,
        flags: u16,
        qdcount: u16,
        /// the question as parsed (None = not a well-formed single question)
        question: Option<(Name, u16)>,
        qraw: Vec<u8>,
    },
    Icmp,
    Other,
}

pub fn parse_wire_question(q: &[u8]) -> Option<(Name, u16)> {
    let mut i = 0;
    let mut n: Name = vec![];
    loop {
        let l = *q.get(i)? as usize;
        i += 1;
        if l == 0 {
            break;
        }
        if l & 0xc0 != 0 {
            return None;
        }
        n.push(q.get(i..i + l)?.to_vec());
        i += l;
    }
    if q.len() != i + 4 {
        return None;
    }
    let t = u16::from_be_bytes([q[i], q[i + 1]]);
    let c = u16::from_be_bytes([q[i + 2], q[i + 3]]);
    if c != 1 {
        return None;
    }
    Some((n, t))
}

pub fn parse_tx(f: &[u8]) -> TxFrame {
    if f.is_empty() {
        return TxFrame::Other;
    }
    let (proto, dst, l4): (u8, Vec<u8>, &[u8]) = match f[0] >> 4 {
        4 => {
            let ihl = ((f[0] & 0xf) as usize) * 4;
            if f.len() < 20 || f.len() < ihl {
                return TxFrame::Other;
            }
            let total = u16::from_be_bytes([f[2], f[3]]) as usize;
            if total > f.len() || total < ihl {
                return TxFrame::Other;
            }
            (f[9], f[16..20].to_vec(), &f[ihl..total])
        }
        6 => {
            if f.len() < 40 {
                return TxFrame::Other;
            }
            let pl = u16::from_be_bytes([f[4], f[5]]) as usize;
            if 40 + pl > f.len() {
                return TxFrame::Other;
            }
            (f[6], f[24..40].to_vec(), &f[40..40 + pl])
        }
        _ => return TxFrame::Other,
    };
    if proto == 1 || proto == 58 {
        return TxFrame::Icmp;
    }
    if proto != 17 || l4.len() < 8 {
        return TxFrame::Other;
    }
    let sport = u16::from_be_bytes([l4[0], l4[1]]);
    let dport = u16::from_be_bytes([l4[2], l4[3]]);
    let ulen = u16::from_be_bytes([l4[4], l4[5]]) as usize;
    if ulen < 8 || ulen > l4.len() {
        return TxFrame::Other;
    }
    let d = &l4[8..ulen];
    if d.len() < 12 {
        return TxFrame::Other;
    }
    let g = |i: usize| u16::from_be_bytes([d[i], d[i + 1]]);
    let qraw = d[12..].to_vec();
    TxFrame::Query {
        dst,
        sport,
        dport,
        txid: g(0),
        flags: g(2),
        qdcount: g(4),
        question: if g(4) == 1 { parse_wire_question(&qraw) } else { None },
        qraw,
    }
}

// ---------------------------------------------------------------------------------------
// Independent, maximally tolerant parser of the responses the explorer delivers (oracle side)
// ---------------------------------------------------------------------------------------

#[derive(Clone, Debug)]
pub struct RRec {
    pub owner: Option<Name>,
    pub typ: u16,
    pub class: u16,
    pub rdata: Vec<u8>,
    pub cname: Option<Name>,
}
#[derive(Clone, Debug)]
pub struct RView {
    pub txid: u16,
    pub flags: u16,
    pub qdcount: u16,
    pub ancount: u16,
    pub questions: Vec<(Option<Name>, u16, u16)>,
    pub records: Vec<RRec>,
}

/// Decode the name field starting at `start`. Returns (decoded name if decodable, offset just
/// after the FIELD or None if the field's extent is unknown). Pointers may go anywhere (forward
/// too) - this is a superset of what any sane decoder accepts; loops are cut by a hop bound.
pub fn decode_name(p: &[u8], start: usize) -> (Option<Name>, Option<usize>) {
    let mut field_end: Option<usize> = None;
    let mut i = start;
    let mut hops = 0;
    let mut n: Name = vec![];
    let mut total = 0usize;
    loop {
        let Some(&b) = p.get(i) else {
            return (None, field_end);
        };
        if b == 0 {
            if field_end.is_none() {
                field_end = Some(i + 1);
            }
            return (Some(n), field_end);
        }
        match b & 0xc0 {
            0x00 => {
                let l = b as usize;
                let Some(lab) = p.get(i + 1..i + 1 + l) else {
                    return (None, field_end);
                };
                n.push(lab.to_vec());
                total += l + 1;
                if total > 2048 {
                    return (None, field_end);
                }
                i += 1 + l;
            }
            0xc0 => {
                let Some(&y) = p.get(i + 1) else {
                    return (None, field_end);
                };
                if field_end.is_none() {
                    field_end = Some(i + 2);
                }
                hops += 1;
                if hops > 64 {
                    return (None, field_end);
                }
                i = (((b & 0x3f) as usize) << 8) | y as usize;
            }
            _ => return (None, field_end),
        }
    }
}

pub fn parse_response(p: &[u8]) -> Option<RView> {
    if p.len() < 12 {
        return None;
    }
    let g = |i: usize| u16::from_be_bytes([p[i], p[i + 1]]);
    let mut v = RView { txid: g(0), flags: g(2), qdcount: g(4), ancount: g(6), questions: vec![], records: vec![] };
    let mut i = 12;
    for _ in 0..v.qdcount.min(8) {
        let (n, end) = decode_name(p, i);
        let Some(end) = end else { return Some(v) };
        if p.len() < end + 4 {
            return Some(v);
        }
        v.questions.push((n, g(end), g(end + 2)));
        i = end + 4;
    }
    if v.qdcount > 8 {
        return Some(v);
    }
    for _ in 0..v.ancount.min(64) {
        let (owner, end) = decode_name(p, i);
        let Some(end) = end else { return Some(v) };
        if p.len() < end + 10 {
            return Some(v);
        }
        let typ = g(end);
        let class = g(end + 2);
        let rdlen = g(end + 8) as usize;
        let rs = end + 10;
        if p.len() < rs + rdlen {
            return Some(v);
        }
        let rdata = p[rs..rs + rdlen].to_vec();
        let cname = if typ == T_CNAME { decode_name(p, rs).0 } else { None };
        v.records.push(RRec { owner, typ, class, rdata, cname });
        i = rs + rdlen;
    }
    Some(v)
}

pub fn describe_response(p: &[u8]) -> String {
    match parse_response(p) {
        None => format!("<{} octets, shorter than a DNS header>", p.len()),
        Some(v) => {
            let nm = |n: &Option<Name>| n.as_ref().map(show).unwrap_or_else(|| "<undecodable>".into());
            let qs: Vec<String> = v.questions.iter().map(|(n, t, _)| format!("{} type{}", nm(n), t)).collect();
            let rs: Vec<String> = v
                .records
                .iter()
                .map(|r| match r.typ {
                    T_CNAME => format!("{} CNAME {}", nm(&r.owner), nm(&r.cname)),
                    T_A | T_AAAA => format!("{} {} {}", nm(&r.owner), if r.typ == T_A { "A" } else { "AAAA" }, crate::sim::hex(&r.rdata)),
                    t => format!("{} type{}", nm(&r.owner), t),
                })
                .collect();
            format!(
                "txid={:04x} flags={:04x} qd={} an={} Q[{}] AN[{}] ({} octets)",
                v.txid,
                v.flags,
                v.qdcount,
                v.ancount,
                qs.join("; "),
                rs.join("; "),
                p.len()
            )
        }
    }
}
