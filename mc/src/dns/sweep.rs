//! C19, clause "records for other names are ignored except along a CNAME chain started at the
//! queried name" read as an obligation: a response that matches on server/port/txid/question and
//! carries the wanted records MUST complete the query with exactly the wanted addresses, whatever
//! records for OTHER names stand before, between or after them.
//!
//! Bounded-exhaustive enumeration (no BFS needed: one response from the initial state):
//!   query kind   {A, AAAA} x {unicast, mDNS (.local)}
//!   skeleton     [Q a1] | [Q a1, Q a2] | [Q->T, T a1] | [Q->T, T a1, T a2] | [Q->T, T->U, U a1]
//!   foreign recs 0..=2 records owned by the unrelated name V, each of type {address of the query's
//!                family, address of the other family, CNAME V->T}, inserted at EVERY combination of
//!                gaps of the skeleton (order of the two foreign records matters)
//!   encoding     compressed (thorough: also uncompressed)
//! Expected result (from the statement, not from smoltcp): Ok(addresses of the skeleton's address
//! records, in order, cut at DNS_MAX_RESULT_COUNT) - V is never on the chain, so nothing it owns
//! may matter.

use super::msg::*;
use super::*;

#[derive(Clone, Copy, Debug, PartialEq, Eq)]
pub enum Skel {
    A1,
    A2,
    C1A1,
    C1A2,
    C2A1,
}
#[derive(Clone, Copy, Debug, PartialEq, Eq)]
pub enum Foreign {
    Addr,
    AddrOtherFamily,
    CnameToT,
}
pub const SKELS: [Skel; 5] = [Skel::A1, Skel::A2, Skel::C1A1, Skel::C1A2, Skel::C2A1];
pub const FOREIGNS: [Foreign; 3] = [Foreign::Addr, Foreign::AddrOtherFamily, Foreign::CnameToT];

#[derive(Clone, Debug)]
pub struct Case {
    pub qname: String,
    pub qtype: u16,
    pub skel: Skel,
    /// (gap index 0..=skeleton length, kind), in the order they are inserted (stable: a later one
    /// at the same gap comes after)
    pub foreign: Vec<(usize, Foreign)>,
    pub plain: bool,
}

fn skeleton(ns: &NameSet, s: Skel, v6: bool) -> Vec<Rec> {
    use Nm::*;
    match s {
        Skel::A1 => vec![addr(ns, Q, 1, v6)],
        Skel::A2 => vec![addr(ns, Q, 1, v6), addr(ns, Q, 2, v6)],
        Skel::C1A1 => vec![cname(ns, Q, T), addr(ns, T, 1, v6)],
        Skel::C1A2 => vec![cname(ns, Q, T), addr(ns, T, 1, v6), addr(ns, T, 2, v6)],
        Skel::C2A1 => vec![cname(ns, Q, T), cname(ns, T, U), addr(ns, U, 1, v6)],
    }
}
fn foreign_rec(ns: &NameSet, f: Foreign, idx: u8, v6: bool) -> Rec {
    match f {
        Foreign::Addr => addr(ns, Nm::V, idx, v6),
        Foreign::AddrOtherFamily => addr(ns, Nm::V, idx, !v6),
        Foreign::CnameToT => cname(ns, Nm::V, Nm::T),
    }
}

/// (answer section, expected address rdata in order, position class of the first foreign record)
fn materialise(ns: &NameSet, c: &Case) -> (Vec<Rec>, Vec<Vec<u8>>, &'static str) {
    let v6 = c.qtype == T_AAAA;
    let sk = skeleton(ns, c.skel, v6);
    let mut expected: Vec<Vec<u8>> = sk
        .iter()
        .filter_map(|r| match &r.data {
            RData::A(a) => Some(a.to_vec()),
            RData::Aaaa(a) => Some(a.to_vec()),
            _ => None,
        })
        .collect();
    expected.truncate(DNS_MAX_RESULT_COUNT);
    let mut out: Vec<Rec> = vec![];
    for gap in 0..=sk.len() {
        for (i, (g, f)) in c.foreign.iter().enumerate() {
            if *g == gap {
                out.push(foreign_rec(ns, *f, 20 + i as u8, v6));
            }
        }
        if gap < sk.len() {
            out.push(sk[gap].clone());
        }
    }
    let shape = match c.foreign.iter().map(|x| x.0).min() {
        None => "none",
        Some(g) if g >= sk.len() => "foreign-after-the-wanted-records",
        Some(g) => match sk[g].data {
            RData::Cname(_) => "foreign-before-a-cname-link",
            _ => "foreign-before-a-wanted-address",
        },
    };
    (out, expected, shape)
}

pub fn enumerate(thorough: bool) -> Vec<Case> {
    let mut v = vec![];
    for (qname, qtype) in [("ab.c", T_A), ("ab.c", T_AAAA), ("ab.local", T_A), ("ab.local", T_AAAA)] {
        for &skel in &SKELS {
            let n = match skel {
                Skel::A1 => 1,
                Skel::A2 | Skel::C1A1 => 2,
                _ => 3,
            };
            for plain in if thorough { vec![false, true] } else { vec![false] } {
                let mk = |foreign: Vec<(usize, Foreign)>| Case { qname: qname.to_string(), qtype, skel, foreign, plain };
                v.push(mk(vec![]));
                for g1 in 0..=n {
                    for &f1 in &FOREIGNS {
                        v.push(mk(vec![(g1, f1)]));
                        for g2 in g1..=n {
                            for &f2 in &FOREIGNS {
                                // both orders at one gap are distinct cases
                                // (at one gap both orders occur: the loops visit (f1, f2) and (f2, f1))
                                v.push(mk(vec![(g1, f1), (g2, f2)]));
                            }
                        }
                    }
                }
            }
        }
    }
    v
}

pub struct Outcome {
    pub ok: bool,
    pub shape: &'static str,
    pub got: String,
    pub expected: Vec<String>,
    pub response: String,
    pub hex: String,
    /// violations of the other clauses raised while delivering (matching oracle etc.)
    pub other: Vec<Viol>,
}

/// Run one case on a fresh real interface + socket: deliver the response to the just-transmitted
/// query and read the result.
pub fn run_case(c: &Case) -> Outcome {
    let ns = DNS_MAX_SERVER_COUNT.min(2);
    let cfg = make_cfg_full("answer-section-sweep", ns, &[(c.qname.as_str(), c.qtype)], Alpha::Mini, Net::Ip, false);
    let mut h = DnsH::new(&cfg);
    let ci = cfg.0.clone();
    let (recs, expected, shape) = materialise(&ci.names[0], c);
    let mut spec = base_spec(&ci);
    if c.plain {
        spec.enc = Enc::Plain;
    }
    let txid = h.qs[0].wire.first().map(|w| w.0).unwrap_or(0);
    let payload = build_with_records(&ci.names[0], c.qtype, &spec, txid, &recs);
    let base = h.build(0, &spec);
    let m = Msg { src: base.src, sport: base.sport, dport: base.dport, payload };
    let mut other = vec![];
    let frame = h.l2(m.src, udp4_frame(m.src, IFACE_IP, m.sport, m.dport, &m.payload));
    h.dev.inner.rx.push_back(frame);
    if h.settle(&mut other, "answer-section sweep").is_some() {
        h.check_results(Some(&m), &mut other);
    }
    let exp_s: Vec<String> = expected.iter().map(|b| hex(b)).collect();
    let (ok, got) = match &h.qs[0].status {
        Status::Ok(list) => {
            // compare as address octets
            let got_b: Vec<String> = list
                .iter()
                .map(|s| match s.parse::<std::net::IpAddr>() {
                    Ok(std::net::IpAddr::V4(a)) => hex(&a.octets()),
                    Ok(std::net::IpAddr::V6(a)) => hex(&a.octets()),
                    Err(_) => s.clone(),
                })
                .collect();
            (got_b == exp_s, format!("Ok({:?})", list))
        }
        st => (false, format!("{:?}", st)),
    };
    Outcome { ok, shape, got, expected: exp_s, response: describe_response(&m.payload), hex: hex(&m.payload), other }
}

pub fn case_json(c: &Case) -> Value {
    json!({"type": "answer-section", "qname": c.qname, "qtype": c.qtype, "skeleton": format!("{:?}", c.skel),
        "foreign": c.foreign.iter().map(|(g, f)| json!([g, format!("{:?}", f)])).collect::<Vec<_>>(), "plain": c.plain})
}
pub fn case_from_json(v: &Value) -> Option<Case> {
    let sk = v["skeleton"].as_str()?;
    let skel = *SKELS.iter().find(|s| format!("{:?}", s) == sk)?;
    let mut foreign = vec![];
    for e in v["foreign"].as_array()? {
        let g = e[0].as_u64()? as usize;
        let f = *FOREIGNS.iter().find(|f| format!("{:?}", f) == e[1].as_str().unwrap_or(""))?;
        foreign.push((g, f));
    }
    Some(Case { qname: v["qname"].as_str()?.to_string(), qtype: v["qtype"].as_u64()? as u16, skel, foreign, plain: v["plain"].as_bool()? })
}
