//! Wall-clock watchdog for "no response content can make processing loop".
//!
//! Every `apply` of the harness registers itself in a per-thread slot; a monitor thread checks
//! the slots. A step of this harness takes microseconds; if one is still running after
//! `HANG_MS` the real code is looping: the monitor writes the violation artefact + evidence and
//! ends the process with exit code 1 (a looping thread cannot be cancelled). The wall clock is
//! used for nothing else, so results stay deterministic on trees where processing terminates.

use crate::core::verif_dir;
use serde_json::json;
use std::cell::Cell;
use std::sync::atomic::{AtomicU64, AtomicUsize, Ordering};
use std::sync::{Arc, Mutex, Once, OnceLock};
use std::time::Instant;

pub const HANG_MS: u64 = 60_000;
const NSLOTS: usize = 256;

pub type Renderer = Box<dyn Fn() -> Vec<String> + Send>;

pub struct Slot {
    since_ms: AtomicU64,
    /// (config debug, renderer of the events so far incl. the one being applied)
    info: Mutex<Option<(Arc<str>, Renderer)>>,
}
static SLOTS: OnceLock<Vec<Slot>> = OnceLock::new();
static T0: OnceLock<Instant> = OnceLock::new();
static NEXT: AtomicUsize = AtomicUsize::new(0);
static START: Once = Once::new();
thread_local! {
    static MY: Cell<usize> = const { Cell::new(usize::MAX) };
}

fn slots() -> &'static Vec<Slot> {
    SLOTS.get_or_init(|| (0..NSLOTS).map(|_| Slot { since_ms: AtomicU64::new(0), info: Mutex::new(None) }).collect())
}
fn now_ms() -> u64 {
    T0.get_or_init(Instant::now).elapsed().as_millis() as u64 + 1
}

/// Called at the start of a harness step. `render` is only evaluated if the step hangs.
pub fn enter(cfg: &Arc<str>, render: Renderer) {
    let idx = MY.with(|c| {
        if c.get() == usize::MAX {
            c.set(NEXT.fetch_add(1, Ordering::Relaxed) % NSLOTS);
        }
        c.get()
    });
    let s = &slots()[idx];
    *s.info.lock().unwrap() = Some((cfg.clone(), render));
    s.since_ms.store(now_ms(), Ordering::Release);
}
pub fn leave() {
    let idx = MY.with(|c| c.get());
    if idx != usize::MAX {
        slots()[idx].since_ms.store(0, Ordering::Release);
    }
}

pub fn start_monitor(tier: &'static str) {
    START.call_once(|| {
        let _ = now_ms();
        let _ = slots();
        std::thread::spawn(move || loop {
            std::thread::sleep(std::time::Duration::from_millis(250));
            let now = now_ms();
            for s in slots().iter() {
                let since = s.since_ms.load(Ordering::Acquire);
                if since != 0 && now > since + HANG_MS {
                    emergency(s, tier);
                }
            }
        });
    });
}

fn emergency(s: &Slot, tier: &str) -> ! {
    let (cfg, events) = match s.info.lock() {
        Ok(g) => match g.as_ref() {
            Some((c, r)) => (c.to_string(), r()),
            None => (String::new(), vec![]),
        },
        Err(_) => (String::new(), vec![]),
    };
    let sig = "C19/termination/processing-does-not-return";
    let detail = format!(
        "a harness step (deliver response / poll) did not return within {} s of wall time: processing loops. config {} events {:?}",
        HANG_MS / 1000,
        cfg,
        events
    );
    let outdir = verif_dir().join("out").join("C19");
    let _ = std::fs::create_dir_all(&outdir);
    let path = outdir.join("C19_termination_processing-does-not-return.json");
    let art = json!({"property": "C19", "signature": sig, "detail": detail,
        "replay": {"harness": "dns", "config": cfg, "events": events}});
    let _ = std::fs::write(&path, serde_json::to_string_pretty(&art).unwrap());
    let ev = json!({"property_id": "C19", "tier": tier, "seed": 0, "level": "model_checking",
        "coverage": {"exhaustive": false, "states": 0, "transitions": 0,
            "violation_list": [{"signature": sig, "detail": detail, "replay": path.display().to_string()}],
            "note": "run aborted by the hang watchdog"},
        "assumptions": [], "wall_s": 0.0, "violations": 1});
    let evdir = verif_dir().join("evidence");
    let _ = std::fs::create_dir_all(&evdir);
    let evpath = match std::env::var("VERIF_PART") {
        Ok(p) if !p.is_empty() => outdir.join(format!("part-{}.json", p)),
        _ => evdir.join("C19.json"),
    };
    let _ = std::fs::write(&evpath, serde_json::to_string_pretty(&ev).unwrap());
    println!("VIOLATION property=C19 replay={}", path.display());
    println!("  signature: {}", sig);
    println!("  detail: {}", detail);
    println!("[C19] tier={} aborted by hang watchdog violations=1", tier);
    std::process::exit(1);
}
