//! C06 — "Wire representations survive emit-then-parse unchanged".
//!
//! E2 (bounded-exhaustive input enumeration, no randomness) over every `Repr` type of
//! `smoltcp::wire` named by the property.  For every enumerated value `r` of a type:
//!
//!  1. `emit` into a buffer of exactly the declared length (`buffer_len()`, or
//!     `header_len()` + payload where the type's API defines it that way), three times,
//!     pre-filled with 0x00 / 0xFF / 0xA5: no panic, the three results byte-identical;
//!  2. parse the emitted bytes (checked constructor + `Repr::parse`, default checksum
//!     capabilities = verify): the result must equal `r`;
//!  3. every single-byte mutation of a representative subset of the emitted packets; a
//!     mutant that still parses (checksums ignored) to some `r2` that is inside the proviso
//!     of the statement is put through (1)+(2) itself (`parse(emit(r2)) == r2`, emit does
//!     not panic, bytes independent of the buffer).
//!
//! Variable-length parts are driven to the limits of their own format (and just below / just
//! above an alignment): DHCP options of 0,1,2,253,254,255 data octets, NDISC options at
//! 8k-1 / 8k / 8k+1 and at 255 units, TCP options filling the 40-octet option space, IPv6
//! options around 8-octet alignment and at 254/255, DNS labels of 62/63 and names of 254/255
//! octets, ICMPv6 error payloads around the minimum-MTU cut.
//!
//! The proviso of the statement ("provided its variable-length parts fit what the protocol
//! permits") lives in the generators (`chunk`) and in `legal` (for parsed values), never in
//! a loosened comparison; the few places where the comparison itself is lenient are
//! documented at the type (`same`) and listed in the evidence (`assumptions`).
//!
//! Verdict clauses and signature scheme (`C06/<clause>/<Type>[/<class>]/<cause>`):
//!
//!  * `buffer_len-panic`, `emit-panic` (cause = source file of the panic), `emit-refuses`
//!    (fallible emit returned Err on a buffer of the declared length);
//!  * `emit-depends-on-buffer`: the three emissions differ; cause = a name for the bytes left
//!    as they were (type hook `dirty_cause`) or the raw offsets (checksum field excluded,
//!    a dirty byte elsewhere changes it as well);
//!  * `roundtrip-differs` / `roundtrip-parse-fails` / `roundtrip-parse-panic`: the zero-fill
//!    emission of a generated value does not parse back to it; cause = names of the
//!    differing fields (or, for a rejection, whether it is the checksum verification that
//!    rejects and which fields would differ without it);
//!  * `reparse-*`: the same for a value obtained by parsing a mutated / hand-made packet.
//!
//! What the *dirty* emissions parse to gives no verdict of its own (it is a consequence of
//! the buffer dependence) and only appears in the detail text.  `<class>` is the enum
//! variant or, for types with several layouts, the layout class (type hook `sig_tag`).
//! A replay artefact names the generated value by (tier, chunk, index) in the generator's
//! deterministic order, plus the mutation (position, value) or the catalogue index.

use crate::core::*;
use rayon::prelude::*;
use serde_json::{json, Value};
use smoltcp::phy::ChecksumCapabilities;
use std::collections::BTreeMap;
use std::fmt::Debug;
use std::panic::{catch_unwind, AssertUnwindSafe};

mod app;
mod icmp;
mod ip;
mod link;
mod lowpan;
mod transport;

pub const FILLS: [u8; 3] = [0x00, 0xFF, 0xA5];

pub fn caps(strict: bool) -> ChecksumCapabilities {
    if strict {
        ChecksumCapabilities::default()
    } else {
        ChecksumCapabilities::ignored()
    }
}

/// Checksum-capability configuration of one emit/parse pair, for the representations whose
/// `emit`/`parse` take `ChecksumCapabilities`.  Only the field of the protocol under test is
/// varied, the others stay at their default.
///
///  * `Default`, `Tx`, `None`: emit and parse under the same capabilities;
///  * `RxDevice`: the same for `Checksum::Rx` ("the device computes the checksum when
///    sending"): emit leaves the checksum to the device, the harness stands in for the device
///    (the packet view's public `fill_checksum`), parse verifies;
///  * `DefaultThenNone`: emit with default, parse with verification off (must still parse);
///  * `RxThenTx`: emit without computing (`Rx`), parse without verifying (`Tx`), nobody fills.
///
/// Whenever the emitting capabilities have tx off, the checksum field belongs to the device
/// (lenient reading: it is not among "the bytes produced" by emit) and is left out of the
/// pre-fill comparison; everything else is compared as always.
#[derive(Clone, Copy, Debug, PartialEq, Eq)]
pub enum Ck {
    Default,
    Tx,
    None,
    RxDevice,
    DefaultThenNone,
    RxThenTx,
}
pub const CK_ALL: [Ck; 6] = [Ck::Default, Ck::None, Ck::Tx, Ck::RxDevice, Ck::DefaultThenNone, Ck::RxThenTx];
#[derive(Clone, Copy, Debug)]
pub enum Proto {
    Ipv4,
    Udp,
    Tcp,
    Icmpv4,
    Icmpv6,
}
fn caps_with(p: Proto, v: smoltcp::phy::Checksum) -> ChecksumCapabilities {
    let mut c = ChecksumCapabilities::default();
    match p {
        Proto::Ipv4 => c.ipv4 = v,
        Proto::Udp => c.udp = v,
        Proto::Tcp => c.tcp = v,
        Proto::Icmpv4 => c.icmpv4 = v,
        Proto::Icmpv6 => c.icmpv6 = v,
    }
    c
}
impl Ck {
    pub fn emit_caps(self, p: Proto) -> ChecksumCapabilities {
        use smoltcp::phy::Checksum as C;
        match self {
            Ck::Default | Ck::DefaultThenNone => ChecksumCapabilities::default(),
            Ck::Tx => caps_with(p, C::Tx),
            Ck::None => caps_with(p, C::None),
            Ck::RxDevice | Ck::RxThenTx => caps_with(p, C::Rx),
        }
    }
    /// capabilities of the strict parse; the lenient parse of mutants ignores all checksums
    pub fn parse_caps(self, p: Proto, strict: bool) -> ChecksumCapabilities {
        use smoltcp::phy::Checksum as C;
        if !strict {
            return ChecksumCapabilities::ignored();
        }
        match self {
            Ck::Default => ChecksumCapabilities::default(),
            Ck::Tx | Ck::RxThenTx => caps_with(p, C::Tx),
            Ck::None | Ck::DefaultThenNone => caps_with(p, C::None),
            Ck::RxDevice => caps_with(p, C::Rx),
        }
    }
    pub fn tx_off(self) -> bool {
        matches!(self, Ck::None | Ck::RxDevice | Ck::RxThenTx)
    }
    pub fn device_fills(self) -> bool {
        self == Ck::RxDevice
    }
    pub fn name(self) -> &'static str {
        match self {
            Ck::Default => "",
            Ck::Tx => "emit-Tx-parse-Tx",
            Ck::None => "emit-None-parse-None",
            Ck::RxDevice => "emit-Rx-device-fills-parse-Rx",
            Ck::DefaultThenNone => "emit-default-parse-None",
            Ck::RxThenTx => "emit-Rx-parse-Tx",
        }
    }
}

/// One wire representation type under test.
///
/// `R<'x>` is the real smoltcp `Repr` (possibly paired with the payload the type's API
/// keeps outside the `Repr`).  Parsing is continuation-passing because several smoltcp
/// parsers hand out a `Repr` that borrows from a local packet wrapper.
pub trait Rt: 'static {
    const NAME: &'static str;
    type R<'x>: Debug + Send + Sync;
    /// Everything `emit`/`parse` need besides the `Repr` (pseudo-header addresses, 6LoWPAN
    /// contexts, ...).  Part of the enumerated input.
    type Ctx: Debug + Clone + Send + Sync + 'static;

    /// The domain is produced in independent chunks (parallelism + bounded memory).
    fn nchunks(_tier: Tier) -> usize {
        1
    }
    fn chunk(tier: Tier, i: usize) -> Vec<(Self::R<'static>, Self::Ctx)>;

    /// Declared length.
    fn blen(r: &Self::R<'_>, c: &Self::Ctx) -> usize;
    /// Emit into a buffer of exactly `blen` bytes.
    fn emit(r: &Self::R<'_>, c: &Self::Ctx, buf: &mut [u8]);
    /// Same, for the types whose `emit` is fallible.
    fn emit_r(r: &Self::R<'_>, c: &Self::Ctx, buf: &mut [u8]) -> Result<(), String> {
        Self::emit(r, c, buf);
        Ok(())
    }
    /// Checked constructor + `Repr::parse`; `strict` = verify checksums.
    fn parse(b: &[u8], c: &Self::Ctx, strict: bool, k: &mut dyn FnMut(Option<&Self::R<'_>>));
    /// Equality demanded by the statement (the `Repr`'s own `PartialEq` unless documented).
    fn same(a: &Self::R<'_>, b: &Self::R<'_>, c: &Self::Ctx) -> bool;
    /// Proviso of the statement for values obtained by parsing a mutated packet.
    fn legal(_r: &Self::R<'_>, _c: &Self::Ctx) -> bool {
        true
    }
    /// Variant name (enums), used in signatures and to make the mutation subset cover
    /// every variant.
    fn tag(_r: &Self::R<'_>) -> String {
        String::new()
    }
    /// Signature hygiene only: maps a differing field name to the name used in the
    /// signature (lets a type fold fields that always fail together).
    fn field_group(f: &str) -> String {
        f.to_string()
    }
    /// Signature hygiene only: a name for the cause of buffer-dependent bytes instead of
    /// the raw offsets (`off` = differing offsets outside the checksum field).
    /// One violation is recorded per returned cause.
    fn dirty_cause(_r: &Self::R<'_>, _off: &[usize]) -> Option<Vec<String>> {
        None
    }
    /// For contexts that carry a checksum-capability mode: the same context under default
    /// capabilities (None if it already is), a name for the mode, and whether emit leaves
    /// the checksum field to the device.  A violation found under a non-default mode is
    /// reported under the plain signature if the same value also shows it under default
    /// capabilities, and with a `/caps-<mode>` suffix otherwise.
    fn base_ctx(_c: &Self::Ctx) -> Option<Self::Ctx> {
        None
    }
    fn ctx_tag(_c: &Self::Ctx) -> String {
        String::new()
    }
    fn tx_off(_c: &Self::Ctx) -> bool {
        false
    }
    /// The class part of a signature for a given clause: `fields` names the differing fields
    /// (empty for panics / buffer dependence).  Lets a type name only the class of the
    /// part that actually failed, so one defect does not spread over unrelated classes.
    fn sig_tag_for(r: &Self::R<'_>, _fields: &str) -> String {
        Self::sig_tag(r)
    }
    /// Text images used to name the differing fields (left: the value, right: what the
    /// parser returned); only types with a documented lenient `same` override them.
    fn show_lhs(r: &Self::R<'_>) -> String {
        format!("{:#?}", r)
    }
    fn show_rhs(p: &Self::R<'_>) -> String {
        format!("{:#?}", p)
    }
    /// Variant / class name used in signatures (defaults to `tag`).
    fn sig_tag(r: &Self::R<'_>) -> String {
        Self::tag(r)
    }
    /// Byte range of the checksum field inside the emitted packet, only used to keep
    /// signatures stable (a dirty byte elsewhere also changes the checksum).
    fn cksum(_r: &Self::R<'_>) -> Option<std::ops::Range<usize>> {
        None
    }
    /// (base number of packets, max packet length) of the representative subset for clause 3;
    /// the base number is multiplied by `mut_scale(tier)`.
    fn mut_params(tier: Tier) -> (usize, usize) {
        match tier {
            Tier::Quick => (48, 400),
            Tier::Thorough => (400, 400),
        }
    }
    /// Hand-made packets (not obtained from `emit`) fed to the parse side of clause 3.
    fn catalogue(_tier: Tier) -> Vec<(Vec<u8>, Self::Ctx)> {
        vec![]
    }
    /// Free-form description of the enumerated domain (goes into the evidence).
    fn domain_doc() -> &'static str;
}

#[derive(Clone, Debug)]
pub struct Origin {
    pub chunk: usize,
    pub index: usize,
    /// single-byte mutation applied to the zero-fill emission of that value
    pub mutation: Option<(usize, u8)>,
    /// index into `catalogue()` instead of a generated value
    pub catalogue: Option<usize>,
}

#[derive(Default)]
pub struct Acc {
    pub values: u64,
    pub r2_values: u64,
    pub emits: u64,
    pub parses: u64,
    pub fps: Vec<u64>,
    pub mutants_tried: u64,
    pub mutants_parsed: u64,
    pub mutants_outside_proviso: u64,
    pub mutant_parse_panics: u64,
    pub catalogue_parsed: u64,
    /// informational: values whose checksum field depended on the buffer while the emitting
    /// capabilities leave that field to the device (not a verdict, see `Ck`)
    pub cksum_field_left_as_is_tx_off: u64,
    pub viols: BTreeMap<String, (String, Value)>,
    pub viol_hits: BTreeMap<String, u64>,
    pub sample: Option<Value>,
    pub sample_mut: Option<Value>,
    pub verbose: bool,
}

impl Acc {
    /// Count a hit; the (expensive) detail text is only built for the first hit of a signature.
    fn viol(&mut self, sig: String, detail: impl FnOnce() -> String, replay: impl FnOnce() -> Value) {
        *self.viol_hits.entry(sig.clone()).or_insert(0) += 1;
        if self.verbose {
            let d = detail();
            println!("violation: {} :: {}", sig, d);
            self.viols.entry(sig).or_insert_with(|| (d, replay()));
        } else if !self.viols.contains_key(&sig) {
            self.viols.insert(sig, (detail(), replay()));
        }
    }
    fn merge(&mut self, o: Acc) {
        self.values += o.values;
        self.r2_values += o.r2_values;
        self.emits += o.emits;
        self.parses += o.parses;
        self.fps.extend(o.fps);
        self.mutants_tried += o.mutants_tried;
        self.mutants_parsed += o.mutants_parsed;
        self.mutants_outside_proviso += o.mutants_outside_proviso;
        self.mutant_parse_panics += o.mutant_parse_panics;
        self.catalogue_parsed += o.catalogue_parsed;
        self.cksum_field_left_as_is_tx_off += o.cksum_field_left_as_is_tx_off;
        for (k, v) in o.viols {
            self.viols.entry(k).or_insert(v);
        }
        for (k, v) in o.viol_hits {
            *self.viol_hits.entry(k).or_insert(0) += v;
        }
        if self.sample.is_none() {
            self.sample = o.sample;
        }
        if self.sample_mut.is_none() {
            self.sample_mut = o.sample_mut;
        }
    }
}

pub fn hex(b: &[u8]) -> String {
    let mut s = String::with_capacity(b.len() * 2);
    for (i, x) in b.iter().enumerate() {
        if i >= 192 {
            s.push_str(&format!("..(+{} bytes)", b.len() - i));
            break;
        }
        s.push_str(&format!("{:02x}", x));
    }
    s
}

fn fp64(name: &str, b: &[u8]) -> u64 {
    use std::hash::{Hash, Hasher};
    let mut h = std::collections::hash_map::DefaultHasher::new();
    name.hash(&mut h);
    b.hash(&mut h);
    h.finish()
}

/// Names of the fields in which two `{:#?}` images differ (lower-case path segments only,
/// i.e. field names, not type / variant names), for stable signatures.
pub fn diff_fields(a: &str, b: &str) -> String {
    fn flatten(s: &str) -> BTreeMap<String, Vec<String>> {
        let mut out: BTreeMap<String, Vec<String>> = BTreeMap::new();
        let mut stack: Vec<String> = vec![];
        for line in s.lines() {
            let ind = line.len() - line.trim_start().len();
            let lvl = ind / 4;
            let t = line.trim();
            if t.is_empty() {
                continue;
            }
            let closer = t.chars().all(|c| matches!(c, '}' | ')' | ']' | ','));
            if closer {
                continue;
            }
            stack.truncate(lvl);
            let name: String = if let Some(p) = t.find(": ") {
                t[..p].to_string()
            } else {
                t.chars().take_while(|c| c.is_ascii_alphanumeric() || *c == '_').collect()
            };
            let opener = t.ends_with('{') || t.ends_with('(') || t.ends_with('[');
            let mut path: Vec<&str> = stack.iter().map(|s| s.as_str()).collect();
            path.push(&name);
            let key: Vec<&str> = path
                .iter()
                .copied()
                .filter(|s| s.chars().next().map(|c| c.is_ascii_lowercase() || c == '_').unwrap_or(false))
                .collect();
            let key = if key.is_empty() { "value".to_string() } else { key[0].to_string() };
            out.entry(key).or_default().push(t.to_string());
            if opener {
                stack.push(name);
            }
        }
        out
    }
    let fa = flatten(a);
    let fb = flatten(b);
    let mut names: Vec<String> = vec![];
    for k in fa.keys().chain(fb.keys()) {
        if fa.get(k) != fb.get(k) && !names.contains(k) {
            names.push(k.clone());
        }
    }
    names.sort();
    if names.is_empty() {
        "value".into()
    } else {
        names.truncate(5);
        names.join("+")
    }
}

fn ranges(off: &[usize]) -> String {
    let mut out = vec![];
    let mut i = 0;
    while i < off.len() {
        let s = off[i];
        let mut e = s;
        while i + 1 < off.len() && off[i + 1] == e + 1 {
            i += 1;
            e = off[i];
        }
        out.push(if s == e { format!("{}", s) } else { format!("{}-{}", s, e) });
        i += 1;
    }
    if out.len() > 4 {
        format!("{},..({} ranges)", out[..3].join(","), out.len())
    } else {
        out.join(",")
    }
}

/// `core::panic_site()` made independent of where the tree under test lives (stable signatures
/// also when the check is run against a scratch copy of /repo): path from `src/` on.
fn site() -> String {
    let s = panic_site();
    match s.rfind("/src/") {
        Some(i) => s[i + 1..].to_string(),
        None => s,
    }
}

fn tagsep(t: &str) -> String {
    if t.is_empty() {
        String::new()
    } else {
        format!("/{}", t)
    }
}

fn replay_json<T: Rt>(tier: Tier, o: &Origin) -> Value {
    json!({"harness": "wire_rt", "type": T::NAME, "tier": tier.name(), "chunk": o.chunk, "index": o.index,
        "mutation": o.mutation.map(|(p, v)| json!({"pos": p, "val": v})),
        "catalogue": o.catalogue})
}

enum ParseOut {
    Same,
    Err,
    Differs(String),
}

/// Parse `b` strictly and compare with `r`.
fn parse_cmp<T: Rt>(r: &T::R<'_>, c: &T::Ctx, b: &[u8]) -> Result<ParseOut, (String, String)> {
    catch_unwind(AssertUnwindSafe(|| {
        let mut out = ParseOut::Err;
        T::parse(b, c, true, &mut |p| {
            out = match p {
                None => ParseOut::Err,
                Some(p) => {
                    if T::same(r, p, c) {
                        ParseOut::Same
                    } else {
                        ParseOut::Differs(T::show_rhs(p))
                    }
                }
            }
        });
        out
    }))
    .map_err(|e| (panic_msg(e), last_panic_loc()))
}

fn grouped_diff<T: Rt>(a: &str, b: &str) -> String {
    let d = diff_fields(a, b);
    let mut g: Vec<String> = d.split('+').map(T::field_group).collect();
    g.sort();
    g.dedup();
    g.join("+")
}

/// Clauses (1) and (2) for one value.  Returns the zero-fill emission.
///
/// Verdicts: no panic in `buffer_len`/`emit`; the three emissions identical; the zero-fill
/// emission parses back to `r`.  What the dirty emissions parse to is only put into the
/// detail text of the buffer-dependence violation (it is a consequence of it, not a
/// separate defect).
pub fn check<T: Rt>(acc: &mut Acc, tier: Tier, r: &T::R<'_>, c: &T::Ctx, o: &Origin) -> Option<Vec<u8>> {
    let derived = o.mutation.is_some() || o.catalogue.is_some();
    if derived {
        acc.r2_values += 1;
    } else {
        acc.values += 1;
    }
    let tag = T::sig_tag_for(r, "");
    let kind = if derived { "re-parsed" } else { "generated" };
    let rj = || replay_json::<T>(tier, o);
    // signature under a non-default capability mode: plain if the value shows the same
    // signature under default capabilities too, `/caps-<mode>` appended otherwise
    let mode = T::ctx_tag(c);
    let mut under_default: Option<std::collections::BTreeSet<String>> = None;
    let mut fix = |base: String| -> String {
        if mode.is_empty() {
            return base;
        }
        let set = under_default.get_or_insert_with(|| match T::base_ctx(c) {
            None => Default::default(),
            Some(c0) => {
                let mut a = Acc::default();
                check::<T>(&mut a, tier, r, &c0, o);
                a.viols.keys().cloned().collect()
            }
        });
        if set.contains(&base) {
            base
        } else {
            format!("{}/caps-{}", base, mode)
        }
    };
    let n = match catch_unwind(AssertUnwindSafe(|| T::blen(r, c))) {
        Ok(n) => n,
        Err(e) => {
            let site = site();
            let (m, l) = (panic_msg(e), last_panic_loc());
            acc.viol(
                fix(format!("C06/buffer_len-panic/{}{}/{}", T::NAME, tagsep(&tag), site)),
                || format!("buffer_len() of a {} value panicked: {} at {}; value {:?} ctx {:?}", kind, m, l, r, c),
                rj,
            );
            return None;
        }
    };
    let mut bufs: Vec<Vec<u8>> = Vec::with_capacity(3);
    for fill in FILLS {
        let mut b = vec![fill; n];
        acc.emits += 1;
        match catch_unwind(AssertUnwindSafe(|| T::emit_r(r, c, &mut b))) {
            Ok(Ok(())) => bufs.push(b),
            Ok(Err(msg)) => {
                acc.viol(
                    fix(format!("C06/emit-refuses/{}{}", T::NAME, tagsep(&tag))),
                    || format!("emit of a {} value into a buffer of its declared length {} (pre-filled 0x{:02x}) returned an error ({}); value {:?} ctx {:?}", kind, n, fill, msg, r, c),
                    rj,
                );
                return None;
            }
            Err(e) => {
                let site = site();
                let (m, l) = (panic_msg(e), last_panic_loc());
                acc.viol(
                    fix(format!("C06/emit-panic/{}{}/{}", T::NAME, tagsep(&tag), site)),
                    || {
                        format!(
                            "emit of a {} value into a buffer of its declared length {} (pre-filled 0x{:02x}) panicked: {} at {}; value {:?} ctx {:?}",
                            kind, n, fill, m, l, r, c
                        )
                    },
                    rj,
                );
                return None;
            }
        }
    }
    // with tx checksumming off the checksum field is the device's, not among the bytes emit
    // produces (lenient reading, see `Ck`)
    let ck = T::cksum(r);
    if T::tx_off(c) {
        if let Some(k) = &ck {
            if k.clone().any(|i| i < n && (bufs[1][i] != bufs[0][i] || bufs[2][i] != bufs[0][i])) {
                acc.cksum_field_left_as_is_tx_off += 1;
            }
        }
    }
    let all: Vec<usize> = (0..n)
        .filter(|&i| bufs[1][i] != bufs[0][i] || bufs[2][i] != bufs[0][i])
        .filter(|i| !(T::tx_off(c) && ck.as_ref().map(|k| k.contains(i)).unwrap_or(false)))
        .collect();
    if !all.is_empty() {
        let mut off = all.clone();
        if let Some(ck) = &ck {
            off.retain(|i| !ck.contains(i));
        }
        let causes = T::dirty_cause(r, &off).unwrap_or_else(|| vec![format!("bytes{}", ranges(&off))]);
        for cause in causes {
            let sig = fix(format!("C06/emit-depends-on-buffer/{}{}/{}", T::NAME, tagsep(&tag), cause));
            acc.viol(
                sig,
                || {
                    // informational (not counted, no verdict): what do the dirty emissions parse to?
                    let mut conseq = vec![];
                    for i in 1..3 {
                        conseq.push(match parse_cmp::<T>(r, c, &bufs[i]) {
                            Ok(ParseOut::Same) => format!("0x{:02x}-fill emission parses back to r", FILLS[i]),
                            Ok(ParseOut::Err) => format!("0x{:02x}-fill emission is rejected by the parser", FILLS[i]),
                            Ok(ParseOut::Differs(p)) => format!("0x{:02x}-fill emission parses to a different value (fields {})", FILLS[i], grouped_diff::<T>(&T::show_lhs(r), &p)),
                            Err((m, l)) => format!("0x{:02x}-fill emission makes the parser panic ({} at {})", FILLS[i], m, l),
                        });
                    }
                    format!(
                        "emitted bytes depend on previous buffer content at offsets [{}] (of {}): zero-fill {} ff-fill {} a5-fill {}; {}; {} value {:?} ctx {:?}",
                        ranges(&all), n, hex(&bufs[0]), hex(&bufs[1]), hex(&bufs[2]), conseq.join("; "), kind, r, c
                    )
                },
                rj,
            );
        }
    }
    acc.parses += 1;
    let clause = if derived { "reparse" } else { "roundtrip" };
    match parse_cmp::<T>(r, c, &bufs[0]) {
        Ok(ParseOut::Same) => {}
        Ok(ParseOut::Err) => {
            // diagnosis only: is it the checksum verification that rejects, and what would
            // the packet parse to without it?
            let mut why = "rejected".to_string();
            let _ = catch_unwind(AssertUnwindSafe(|| {
                T::parse(&bufs[0], c, false, &mut |p| {
                    if let Some(p) = p {
                        why = if T::same(r, p, c) {
                            "checksum-rejected".to_string()
                        } else {
                            format!("checksum-rejected+{}", grouped_diff::<T>(&T::show_lhs(r), &T::show_rhs(p)))
                        };
                    }
                })
            }));
            let tag = T::sig_tag_for(r, &why);
            acc.viol(
                fix(format!("C06/{}-parse-fails/{}{}/{}", clause, T::NAME, tagsep(&tag), why)),
                || format!("bytes emitted (zero-filled buffer) from a {} value are rejected by the parser ({}): value {:?} ctx {:?} emitted {}", kind, why, r, c, hex(&bufs[0])),
                rj,
            );
        }
        Ok(ParseOut::Differs(p)) => {
            let d = grouped_diff::<T>(&T::show_lhs(r), &p);
            let tag = T::sig_tag_for(r, &d);
            acc.viol(
                fix(format!("C06/{}-differs/{}{}/{}", clause, T::NAME, tagsep(&tag), d)),
                || {
                    format!(
                        "parse(emit(r)) != r ({} value, zero-filled buffer), differing fields: {}; r = {:?}; parsed = {}; ctx {:?}; emitted {}",
                        kind, d, r, p.split_whitespace().collect::<Vec<_>>().join(" "), c, hex(&bufs[0])
                    )
                },
                rj,
            );
        }
        Err((m, l)) => {
            let site = site();
            acc.viol(
                fix(format!("C06/{}-parse-panic/{}{}/{}", clause, T::NAME, tagsep(&tag), site)),
                || format!("parsing the bytes emitted from a {} value panicked: {} at {}; value {:?} emitted {}", kind, m, l, r, hex(&bufs[0])),
                rj,
            );
        }
    }
    if acc.sample_mut.is_none() && o.mutation.is_some() {
        let (p, v) = o.mutation.unwrap();
        acc.sample_mut = Some(json!({"type": T::NAME, "source_value": {"chunk": o.chunk, "index": o.index}, "mutation": {"pos": p, "val": v},
            "reparsed_value": format!("{:?}", r), "re_emitted": hex(&bufs[0])}));
    }
    if acc.sample.is_none() && !derived {
        acc.sample = Some(json!({"type": T::NAME, "value": format!("{:?}", r), "ctx": format!("{:?}", c), "declared_len": n, "emitted": hex(&bufs[0])}));
    }
    if acc.verbose {
        println!("  value ({}) = {:?}", kind, r);
        println!("  ctx = {:?}", c);
        println!("  declared length = {}", n);
        for i in 0..3 {
            println!("  emit over 0x{:02x}-filled buffer: {}", FILLS[i], hex(&bufs[i]));
        }
    }
    Some(bufs.swap_remove(0))
}

pub fn mut_scale(tier: Tier) -> usize {
    match tier {
        Tier::Quick => 8,
        Tier::Thorough => 16,
    }
}

pub fn mutation_values(tier: Tier, orig: u8) -> Vec<u8> {
    match tier {
        Tier::Quick => {
            let mut v = vec![];
            for x in [0x00u8, 0xff, orig ^ 0x01, orig ^ 0x80] {
                if x != orig && !v.contains(&x) {
                    v.push(x);
                }
            }
            v
        }
        Tier::Thorough => (0..=255u8).filter(|&x| x != orig).collect(),
    }
}

/// Clause (3) for one packet: parse `m` leniently; if it parses to a legal r2, run (1)+(2) on r2.
fn reparse<T: Rt>(acc: &mut Acc, tier: Tier, m: &[u8], c: &T::Ctx, o: &Origin) -> bool {
    let mut st = (false, false);
    let res = catch_unwind(AssertUnwindSafe(|| {
        T::parse(m, c, false, &mut |p| {
            if let Some(r2) = p {
                st.0 = true;
                if T::legal(r2, c) {
                    st.1 = true;
                    if let Some(b) = check::<T>(acc, tier, r2, c, o) {
                        acc.fps.push(fp64(T::NAME, &b));
                    }
                } else if acc.verbose {
                    println!("  parsed value is outside the proviso of the statement, skipped: {:?}", r2);
                }
            }
        });
    }));
    match res {
        Ok(()) => {
            if st.0 && !st.1 {
                acc.mutants_outside_proviso += 1;
            }
            st.0
        }
        Err(_) => {
            // a parser panic on arbitrary bytes is C07's business, not C06's (`check` catches
            // the panics of the code it calls itself, so this one came from the lenient parse)
            acc.mutant_parse_panics += 1;
            false
        }
    }
}

struct TypeStats {
    name: &'static str,
    acc: Acc,
    chunks: usize,
    catalogue_packets: usize,
    mutated_packets: usize,
    distinct: u64,
    validated: u64,
    machinery: Vec<String>,
    wall: f64,
}

fn run_type<T: Rt>(tier: Tier, out: &mut Vec<TypeStats>) {
    let t0 = std::time::Instant::now();
    let n = T::nchunks(tier);
    let (maxp, maxlen) = T::mut_params(tier);
    let maxp = maxp * mut_scale(tier);
    // stage 1+2: generated values
    let stage1 = |ci: usize| {
            let vals = T::chunk(tier, ci);
            // candidates: every variant's first value + an even thinning to about 4x the
            // number of packets finally kept
            let stride = (vals.len() * n / (4 * maxp)).max(1);
            let mut acc = Acc::default();
            let mut cat = vec![];
            let mut seen_tags: Vec<String> = vec![];
            for (vi, (r, c)) in vals.iter().enumerate() {
                let o = Origin { chunk: ci, index: vi, mutation: None, catalogue: None };
                if let Some(b) = check::<T>(&mut acc, tier, r, c, &o) {
                    acc.fps.push(fp64(T::NAME, &b));
                    let tag = T::tag(r);
                    let new_tag = !seen_tags.contains(&tag);
                    if new_tag {
                        seen_tags.push(tag);
                    }
                    if b.len() <= maxlen && (new_tag || vi % stride == 0) {
                        cat.push((ci, vi, b, c.clone()));
                    }
                }
            }
            (acc, cat)
    };
    let parts: Vec<(Acc, Vec<(usize, usize, Vec<u8>, T::Ctx)>)> = (0..n).into_par_iter().map(stage1).collect();
    // determinism: every chunk is generated and checked a second time; the sequence of emitted
    // byte strings (fingerprints, in generation order) and the violation counters must repeat
    let again: Vec<(Vec<u64>, BTreeMap<String, u64>)> = (0..n)
        .into_par_iter()
        .map(|ci| {
            let (a, _) = stage1(ci);
            (a.fps, a.viol_hits)
        })
        .collect();
    let mut machinery = vec![];
    let mut validated = 0u64;
    for (ci, ((a, _), (fps2, hits2))) in parts.iter().zip(again.iter()).enumerate() {
        if a.fps != *fps2 || a.viol_hits != *hits2 {
            machinery.push(format!("{}: re-execution of chunk {} did not reproduce (nondeterminism in harness or code under test)", T::NAME, ci));
        } else {
            validated += a.values;
        }
    }
    let mut acc = Acc::default();
    let mut cands = vec![];
    for (a, c) in parts {
        acc.merge(a);
        cands.extend(c);
    }
    if acc.values == 0 {
        machinery.push(format!("{}: empty domain", T::NAME));
    }
    // representative subset: distinct packets, evenly thinned to at most `maxp`
    let mut seen = std::collections::BTreeSet::new();
    cands.retain(|(_, _, b, c)| seen.insert((b.clone(), format!("{:?}", c))));
    let total = cands.len();
    let chosen: Vec<_> = if total > maxp {
        (0..maxp).map(|k| cands[k * total / maxp].clone()).collect()
    } else {
        cands
    };
    let mutated_packets = chosen.len();
    // stage 3: single-byte mutants of each chosen packet (in batches, so that the fingerprint
    // list can be de-duplicated as it grows)
    fn compact(acc: &mut Acc) {
        acc.fps.par_sort_unstable();
        acc.fps.dedup();
    }
    compact(&mut acc);
    let mut last = acc.fps.len();
    for batch in chosen.chunks(4096) {
        let subs: Vec<Acc> = batch
            .par_iter()
            .map(|(ci, vi, b, c)| {
                let mut acc = Acc::default();
                let mut m = b.clone();
                for pos in 0..b.len() {
                    for val in mutation_values(tier, b[pos]) {
                        m[pos] = val;
                        acc.mutants_tried += 1;
                        acc.parses += 1;
                        let o = Origin { chunk: *ci, index: *vi, mutation: Some((pos, val)), catalogue: None };
                        if reparse::<T>(&mut acc, tier, &m, c, &o) {
                            acc.mutants_parsed += 1;
                        }
                    }
                    m[pos] = b[pos];
                }
                acc.fps.sort_unstable();
                acc.fps.dedup();
                acc
            })
            .collect();
        for s in subs {
            acc.merge(s);
        }
        if acc.fps.len() > (2 * last).max(8_000_000) {
            compact(&mut acc);
            last = acc.fps.len();
        }
    }
    // hand-made catalogue
    let cat = T::catalogue(tier);
    let catalogue_packets = cat.len();
    let subs: Vec<Acc> = cat
        .par_iter()
        .enumerate()
        .map(|(i, (b, c))| {
            let mut acc = Acc::default();
            acc.parses += 1;
            let o = Origin { chunk: 0, index: 0, mutation: None, catalogue: Some(i) };
            if reparse::<T>(&mut acc, tier, b, c, &o) {
                acc.catalogue_parsed += 1;
            }
            acc
        })
        .collect();
    for s in subs {
        acc.merge(s);
    }
    compact(&mut acc);
    let distinct = acc.fps.len() as u64;
    acc.fps = vec![];
    out.push(TypeStats { name: T::NAME, acc, chunks: n, catalogue_packets, mutated_packets, distinct, validated, machinery, wall: t0.elapsed().as_secs_f64() });
}

fn replay_type<T: Rt>(art: &Value, found: &mut Option<i32>) {
    let r = &art["replay"];
    if r["type"].as_str() != Some(T::NAME) {
        return;
    }
    let tier = if r["tier"].as_str() == Some("thorough") { Tier::Thorough } else { Tier::Quick };
    let ci = r["chunk"].as_u64().unwrap_or(0) as usize;
    let vi = r["index"].as_u64().unwrap_or(0) as usize;
    let mut acc = Acc { verbose: true, ..Default::default() };
    println!("replay {} ({})", T::NAME, T::domain_doc());
    if let Some(k) = r["catalogue"].as_u64() {
        let cat = T::catalogue(tier);
        let Some((b, c)) = cat.get(k as usize) else {
            eprintln!("MACHINERY ERROR: catalogue index {} out of range", k);
            *found = Some(2);
            return;
        };
        println!("catalogue packet {}: {}", k, hex(b));
        let o = Origin { chunk: 0, index: 0, mutation: None, catalogue: Some(k as usize) };
        let p = reparse::<T>(&mut acc, tier, b, c, &o);
        println!("parses: {}", p);
    } else {
        if ci >= T::nchunks(tier) {
            eprintln!("MACHINERY ERROR: chunk {} out of range", ci);
            *found = Some(2);
            return;
        }
        let vals = T::chunk(tier, ci);
        let Some((v, c)) = vals.get(vi) else {
            eprintln!("MACHINERY ERROR: index {} out of range in chunk {}", vi, ci);
            *found = Some(2);
            return;
        };
        let o = Origin { chunk: ci, index: vi, mutation: None, catalogue: None };
        match r["mutation"].as_object() {
            None => {
                println!("generated value chunk {} index {}:", ci, vi);
                check::<T>(&mut acc, tier, v, c, &o);
            }
            Some(m) => {
                let pos = m["pos"].as_u64().unwrap_or(0) as usize;
                let val = m["val"].as_u64().unwrap_or(0) as u8;
                let mut quiet = Acc::default();
                let Some(mut b) = check::<T>(&mut quiet, tier, v, c, &o) else {
                    println!("source value no longer emits");
                    *found = Some(1);
                    return;
                };
                println!("source value chunk {} index {}: {:?}", ci, vi, v);
                println!("source packet : {}", hex(&b));
                if pos >= b.len() {
                    eprintln!("MACHINERY ERROR: mutation position out of range");
                    *found = Some(2);
                    return;
                }
                b[pos] = val;
                println!("mutant (byte {} := 0x{:02x}): {}", pos, val, hex(&b));
                let o = Origin { mutation: Some((pos, val)), ..o };
                let p = reparse::<T>(&mut acc, tier, &b, c, &o);
                println!("mutant parses: {}", p);
            }
        }
    }
    // verdict: does the artefact's own signature still show on this input?  (other
    // signatures hit by the same input are printed above but belong to their own artefacts)
    let want = art["signature"].as_str().unwrap_or("");
    if acc.viols.is_empty() {
        println!("no violation on replay");
        *found = Some(0);
    } else if want.is_empty() || acc.viols.contains_key(want) {
        println!("replay verdict: {} still violated", if want.is_empty() { "property" } else { want });
        *found = Some(1);
    } else {
        println!("replay verdict: {} no longer shows on this input (other signatures listed above do)", want);
        *found = Some(0);
    }
}

macro_rules! each_type {
    ($f:ident, $($a:expr),*) => {
        $f::<link::Eth>($($a),*);
        $f::<link::Arp>($($a),*);
        $f::<ip::V4>($($a),*);
        $f::<ip::V6>($($a),*);
        $f::<ip::ExtHdr>($($a),*);
        $f::<ip::Frag>($($a),*);
        $f::<ip::Opt>($($a),*);
        $f::<ip::Hbh>($($a),*);
        $f::<ip::Routing>($($a),*);
        $f::<icmp::Icmp4>($($a),*);
        $f::<icmp::Icmp6>($($a),*);
        $f::<icmp::Ndisc>($($a),*);
        $f::<icmp::NdOpt>($($a),*);
        $f::<icmp::Mld>($($a),*);
        $f::<icmp::MldRec>($($a),*);
        $f::<icmp::Igmp>($($a),*);
        $f::<transport::Udp>($($a),*);
        $f::<transport::Tcp>($($a),*);
        $f::<transport::TcpOpt>($($a),*);
        $f::<app::Dhcp>($($a),*);
        $f::<app::Dns>($($a),*);
        $f::<link::L154>($($a),*);
        $f::<lowpan::Iphc>($($a),*);
        $f::<lowpan::NhcExt>($($a),*);
        $f::<lowpan::NhcUdp>($($a),*);
        $f::<lowpan::Frag>($($a),*);
    };
}

/// Runs the emit/parse check on one value that lies OUTSIDE the enumerated domain and returns
/// what would have been reported; goes into the evidence as an observation, never as a verdict.
pub fn probe<T: Rt>(r: &T::R<'_>, c: &T::Ctx) -> Value {
    let mut acc = Acc::default();
    let o = Origin { chunk: 0, index: 0, mutation: None, catalogue: None };
    let emitted = check::<T>(&mut acc, Tier::Quick, r, c, &o);
    let outcome: Vec<String> = acc.viols.keys().map(|k| k.trim_start_matches("C06/").to_string()).collect();
    json!({"type": T::NAME, "value": format!("{:?}", r), "emitted": emitted.map(|b| hex(&b)),
        "outcome": if outcome.is_empty() { vec!["round-trips".to_string()] } else { outcome }})
}

fn doc_type<T: Rt>(m: &mut serde_json::Map<String, Value>) {
    m.insert(T::NAME.to_string(), json!(T::domain_doc()));
}

pub fn run(tier: Tier) -> i32 {
    let mut rep = Report::new("C06", tier);
    rep.assumptions.push("domain = cross products of per-field boundary alphabets inside the documented ranges (per type: coverage.domains); values outside what the protocol permits (the statement's proviso) are not generated; no sampling, no randomness".into());
    rep.assumptions.push("variable-length parts are enumerated at the limits of their own format (DHCP option data 0,1,2,253,254,255; NDISC option units at 8k-1/8k/8k+1 and 255 units; TCP options up to exactly 40 octets; IPv6 options around 8-octet alignment and 254/255 octets; DNS labels 62/63 and names 254/255 octets); values beyond those limits are outside the proviso and not generated".into());
    rep.assumptions.push("declared length = Repr::buffer_len(); for types whose API keeps the payload outside the Repr (Ipv4Repr, Ipv6Repr, UdpRepr, SixlowpanUdpNhcRepr, Ipv6ExtHeaderRepr, MldAddressRecordRepr, MldRepr::ReportRecordReprs) = header length + payload, the payload being written by the harness the way the interface code does".into());
    rep.assumptions.push("clause 3 (mutants) parses with ChecksumCapabilities::ignored(), then re-emits/re-parses the obtained value with default (verifying) capabilities; a panic of a parser on a mutated packet is counted (mutant_parse_panics) but is property C07's subject, not reported here".into());
    rep.assumptions.push("distinct emitted byte strings are counted through a 64-bit SipHash of (type, bytes)".into());
    for a in [
        "enum_with_unknown types: Unknown(x) only for x that is not one of the named values (Unknown(known) is a second spelling of the same wire value)",
        "Icmpv4Repr error messages: embedded header.payload_len = data.len() >= 8 (the parser reports the length it can see; longer originals are cut by design)",
        "Icmpv6Repr error messages with more quoted data than buffer_len() admits (> 1192 bytes): the expected parse result is the value with data cut to buffer_len() - 8 - 40 bytes (the cut the statement calls by design); everything else must hold unchanged (no panic, bytes independent of the buffer)",
        "NDISC: link-layer addresses of 6 or 8 bytes (the lengths RawHardwareAddress::parse knows); RedirectedHeader with header.payload_len = data.len(); NdiscRepr / MldRepr are emitted without the checksum, which the enclosing Icmpv6Repr::emit owns (harness zeroes it; the full path is covered under Icmpv6Repr)",
        "MldRepr::ReportRecordReprs is emit-only: declared length = 8 + 20 per record and equality = the parsed Report carries the same records; MldAddressRecordRepr: multicast addresses only (documented panic otherwise), payload written by the harness",
        "IgmpRepr: v1 query <-> max_resp_time 0; v2 query only with durations an 8-bit max-resp code denotes; group 0.0.0.0 or multicast",
        "TcpRepr: options <= 40 bytes; SACK blocks only with an ACK and without SACK-permitted, filled from the front of the array; window_scale <= 14; ports != 0",
        "DhcpRepr: additional_options are compared with the unknown options observed in the emitted packet (the field is documented as emit-only)",
        "DnsRepr (no parse): read back through DnsPacket accessors + DnsQuestion::parse; names are well-formed encoded names <= 255 bytes",
        "Ieee802154Repr: security_enabled = false (no field for the auxiliary security header); frames for which the parser yields no addressing information are not re-emitted; the 2015 row (dst absent, src present, compression) where smoltcp's parser and the standard's table disagree is not generated",
        "Ipv6HopByHopRepr: non-empty option lists; Ipv6ExtHeaderRepr / Ipv6OptionRepr::Unknown / NdiscOptionRepr::Unknown: data exactly as long as the length field says",
        "SixlowpanIphcRepr: (ecn, dscp, flow_label) only in the four shapes of the TF field (buffer_len is unreachable!() otherwise)",
    ] {
        rep.assumptions.push(a.into());
    }
    let mut stats: Vec<TypeStats> = vec![];
    each_type!(run_type, tier, &mut stats);
    let mut docs = serde_json::Map::new();
    each_type!(doc_type, &mut docs);

    let mut per_type = serde_json::Map::new();
    let (mut states, mut evals, mut nontriv, mut validated) = (0u64, 0u64, 0u64, 0u64);
    let mut tot = Acc::default();
    for s in &mut stats {
        let a = &s.acc;
        per_type.insert(
            s.name.to_string(),
            json!({
                "values_enumerated": a.values, "chunks": s.chunks,
                "emits": a.emits, "parses": a.parses,
                "distinct_emitted_byte_strings": s.distinct,
                "packets_mutated": s.mutated_packets,
                "mutants_tried": a.mutants_tried, "mutants_parsed": a.mutants_parsed,
                "mutants_parsed_but_outside_proviso": a.mutants_outside_proviso,
                "mutant_parser_panics_ignored": a.mutant_parse_panics,
                "handmade_catalogue_packets": s.catalogue_packets, "handmade_catalogue_parsed": a.catalogue_parsed,
                "reparsed_values_checked": a.r2_values,
                "checksum_field_left_as_it_was_while_tx_checksum_off_not_a_verdict": a.cksum_field_left_as_is_tx_off,
                "generated_values_re_executed_identically": s.validated,
                "violation_hits_by_signature": a.viol_hits,
                "sample_value": a.sample, "sample_mutant": a.sample_mut,
                "wall_s": (s.wall * 100.0).round() / 100.0,
            }),
        );
        states += s.distinct;
        evals += a.emits + a.parses;
        nontriv += a.values + a.r2_values;
        validated += s.validated;
        rep.machinery_errors.extend(s.machinery.iter().cloned());
    }
    // 12 samples are kept: generated values and mutants of a spread of types
    for (i, s) in stats.iter().enumerate() {
        if i % 4 == 1 {
            if let Some(smp) = &s.acc.sample {
                rep.samples.push(smp.clone());
            }
            if let Some(smp) = &s.acc.sample_mut {
                rep.samples.push(smp.clone());
            }
        }
    }
    for s in stats {
        for (sig, (detail, replay)) in &s.acc.viols {
            rep.violation(sig.clone(), detail.clone(), replay.clone());
        }
        tot.merge(s.acc);
    }
    rep.add_count("states", states);
    rep.add_count("transitions", evals);
    rep.add_count("evaluations", evals);
    rep.add_count("traces_validated_against_impl", validated);
    rep.add_count("distinct_nontrivial", nontriv);
    rep.add_count("values_enumerated", tot.values);
    rep.add_count("mutants_tried", tot.mutants_tried);
    rep.add_count("mutants_parsed", tot.mutants_parsed);
    rep.add_count("reparsed_values_checked", tot.r2_values);
    rep.cov("rule", json!("per type: every value of the stated cross product is emitted into exact-length buffers pre-filled 0x00/0xFF/0xA5 (no panic, identical bytes) and parsed back (must equal); a representative subset of the emitted packets (every variant, evenly thinned) gets every single-byte mutation (quick: {0x00,0xff,^0x01,^0x80}; thorough: all 255 other values) and every mutant that still parses to a value inside the proviso goes through the same emit/parse check. states = distinct (type, emitted bytes); transitions = emit + parse evaluations; distinct_nontrivial = values (generated + re-parsed) that went through the full emit/parse check; traces_validated_against_impl = generated values whose complete check was executed a second time with identical emitted bytes and verdicts"));
    rep.cov("fills", json!(["0x00", "0xff", "0xa5"]));
    rep.cov("per_type", Value::Object(per_type));
    rep.cov("domains", Value::Object(docs));
    rep.cov("outside_domain_observations", json!({
        "note": "values the generators deliberately leave out (proviso of the statement / lenient reading, see assumptions); what the check would say about them is recorded here for information only and never counted as a violation",
        "probes": observations(),
    }));
    rep.and_exhaustive(true);
    rep.finish()
}

fn observations() -> Vec<Value> {
    let mut v = vec![];
    v.extend(icmp::observations());
    v.extend(transport::observations());
    v.extend(link::observations());
    v.extend(ip::observations());
    v
}

pub fn replay(art: &serde_json::Value) -> i32 {
    let mut found: Option<i32> = None;
    each_type!(replay_type, art, &mut found);
    match found {
        Some(c) => c,
        None => {
            eprintln!("MACHINERY ERROR: unknown type {:?} in artefact", art["replay"]["type"]);
            2
        }
    }
}

// ---------------------------------------------------------------------------------------
// shared alphabets
// ---------------------------------------------------------------------------------------
pub mod alpha {
    use crate::core::Tier;
    use smoltcp::wire::*;

    /// first `q` entries in the quick tier, everything in the thorough tier
    pub fn pick<T: Clone>(tier: Tier, all: &[T], q: usize) -> Vec<T> {
        match tier {
            Tier::Quick => all.iter().take(q).cloned().collect(),
            Tier::Thorough => all.to_vec(),
        }
    }

    pub fn macs() -> Vec<EthernetAddress> {
        vec![
            EthernetAddress([0x02, 0x00, 0x00, 0x00, 0x00, 0x01]),
            EthernetAddress([0xff; 6]),
            EthernetAddress([0x00; 6]),
            EthernetAddress([0x01, 0x00, 0x5e, 0x00, 0x00, 0x01]),
            EthernetAddress([0x33, 0x33, 0xff, 0x12, 0x34, 0x56]),
        ]
    }
    pub fn v4s() -> Vec<Ipv4Address> {
        vec![
            Ipv4Address::new(10, 0, 0, 1),
            Ipv4Address::new(255, 255, 255, 255),
            Ipv4Address::new(0, 0, 0, 0),
            Ipv4Address::new(224, 0, 0, 1),
            Ipv4Address::new(127, 0, 0, 1),
            Ipv4Address::new(192, 168, 1, 255),
            Ipv4Address::new(169, 254, 1, 1),
        ]
    }
    pub fn v6s() -> Vec<Ipv6Address> {
        vec![
            Ipv6Address::new(0xfe80, 0, 0, 0, 0, 0, 0, 1),
            Ipv6Address::new(0xff02, 0, 0, 0, 0, 0, 0, 1),
            Ipv6Address::new(0, 0, 0, 0, 0, 0, 0, 0),
            Ipv6Address::new(0x2001, 0xdb8, 0, 0, 0, 0, 0, 1),
            Ipv6Address::new(0, 0, 0, 0, 0, 0, 0, 1),
            Ipv6Address::new(0xfe80, 0, 0, 0, 0, 0xff, 0xfe00, 0x1234),
            Ipv6Address::new(0xff02, 0, 0, 0, 0, 1, 0xff00, 1),
            Ipv6Address::new(0, 0, 0, 0, 0, 0xffff, 0xc000, 0x0201),
            Ipv6Address::new(0xfd00, 0, 0, 0, 0, 0, 0, 1),
            Ipv6Address::new(0xff05, 0, 0, 0, 0, 0, 1, 3),
            Ipv6Address::new(0xffff, 0xffff, 0xffff, 0xffff, 0xffff, 0xffff, 0xffff, 0xffff),
            // fe80::/10 outside fe80::/64
            Ipv6Address::new(0xfe80, 0, 0, 1, 0, 0, 0, 0xabcd),
            Ipv6Address::new(0xfebf, 0xffff, 0, 0, 0, 0, 0, 1),
        ]
    }
    pub fn protos() -> Vec<IpProtocol> {
        vec![
            IpProtocol::Tcp,
            IpProtocol::Udp,
            IpProtocol::Icmpv6,
            IpProtocol::Unknown(0xfe),
            IpProtocol::HopByHop,
            IpProtocol::Icmp,
            IpProtocol::Igmp,
            IpProtocol::Ipv6Route,
            IpProtocol::Ipv6Frag,
            IpProtocol::IpSecEsp,
            IpProtocol::IpSecAh,
            IpProtocol::Ipv6NoNxt,
            IpProtocol::Ipv6Opts,
            IpProtocol::Unknown(0xff),
        ]
    }
    pub const U8S: [u8; 4] = [0, 255, 1, 64];
    pub const U16S: [u16; 4] = [0, 0xffff, 1, 0x8000];
    pub const U32S: [u32; 4] = [0, 0xffff_ffff, 1, 0x8000_0000];

    /// deterministic non-constant payload pattern; slices of it are `'static`
    pub fn pattern() -> &'static [u8] {
        static P: std::sync::OnceLock<Vec<u8>> = std::sync::OnceLock::new();
        P.get_or_init(|| (0..70000usize).map(|i| (i.wrapping_mul(7).wrapping_add(3) ^ (i >> 8)) as u8).collect())
    }
    pub fn pat(len: usize) -> &'static [u8] {
        &pattern()[..len]
    }
    pub fn pat_at(off: usize, len: usize) -> &'static [u8] {
        &pattern()[off..off + len]
    }
    /// leak a generated vector (only used for a bounded number of generator-side constants)
    pub fn leak<T>(v: Vec<T>) -> &'static [T] {
        Box::leak(v.into_boxed_slice())
    }
}
