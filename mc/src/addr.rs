//! C11 — "Only traffic addressed to the interface is delivered; no replies to non-unicast".
//!
//! Bounded-exhaustive enumeration (E2) of a finite table; every cell is executed on a FRESH real
//! smoltcp `Interface` + `SocketSet` (see `addr/world.rs`), the frames the stack emits are
//! classified by an independent parser (`addr/pkt.rs`), and the rules of the statement are
//! evaluated on every cell:
//!
//!  R1  traffic not addressed to the interface (Ethernet frame for another station, 802.15.4
//!      frame for another PAN, IP packet / ARP / NS for a foreign unicast address or a multicast
//!      group that is not joined) is delivered to no TCP/UDP/ICMP/DNS socket and is not answered:
//!      no frame at all leaves the interface because of it.
//!  R2  a TCP/UDP/ICMP/DNS socket only receives what matches its bound endpoint.
//!  R3  destination broadcast/multicast, or source unspecified/broadcast/multicast  =>  no TCP RST
//!      and no ICMP error comes out (echo replies, ARP replies, NAs, SYN-ACKs are not errors).
//!  R4  ICMP error in or TCP RST in  =>  no ICMP error and no RST out.
//!  R5  TCP segment to a broadcast, multicast or loopback destination (everything in this harness
//!      arrives from the network)  =>  the `{:?}` image of every TCP socket is unchanged.
//!
//! Observation: a socket "received" something iff its `{:?}` image differs between just before the
//! frame and just after `poll_ingress_single` (sockets are only fed during ingress; the egress
//! pass that follows is run to collect socket-originated answers such as SYN-ACKs). Frames are
//! collected from `poll_ingress_single` plus the following `poll`s until nothing more comes out.
//!
//! Depth: every cell on a fresh interface (primed or cold neighbor cache); hand-picked first
//! frames (ARP/NS teaching the peer, SYN moving the listener, SYN to broadcast with and without
//! an egress pass in between, UDP filling a socket, complete handshake) followed by every cell;
//! thorough tier: generic depth 2 (every cell as first frame, merged by state fingerprint).
//!
//! Address table layouts: besides the default [own, second own address of the same IP version] the
//! interface is also built with [v4/24, v6/64], [v6/64, v4/24], [v4 host/32, v4/24] and
//! [v4/24, v4/24 of a second subnet] (address-table scans that stop early or depend on the order
//! show up there); the second subnet's broadcast address is a source and a destination class.
//!
//! Timed part (addr/timed.rs): an address obtained by SLAAC counts as "own" only between the
//! router advertisement and the end of its valid lifetime; the application event loop polls at the
//! instants `poll_at()` returns; probes before/after are judged by R1 against a validity
//! computed from the advertisements, not from `iface.ip_addrs()`.
//!
//! Listener histories (addr/hist.rs): `listen((A1, 80))` on a two-address interface, every event
//! sequence up to length 3 (quick) / 4 (thorough) over {SYN/RST/ACK/data to A1 or A2, FIN, abort +
//! listen again}; after every frame R2 is judged against the endpoint the APPLICATION bound (the
//! single-packet table judges against what the socket reports, which a socket that forgot its
//! address binding would satisfy).
//!
//! 6LoWPAN address contexts (addr/ctx.rs): 802.15.4 frames with the CID extension and
//! context-compressed destination/source, every (SCI, DCI), with checksum-equivalent prefixes and
//! with receive checksum verification off, so that a wrong expansion cannot hide behind the
//! transport checksum; destinations denoting a foreign address are judged by R1.
//!
//! Routing table x AnyIP: besides the default route via a foreign gateway the worlds are built with
//! no routes, a default route via OUR OWN address, specific prefixes covering the foreign unicast
//! destinations via our own address, and the same expired; each with AnyIP off and on. With AnyIP
//! off no routing table may make a foreign unicast destination "ours" (R1).
//!
//! Lenient readings (the statement leaves room; the oracle demands no more than is written):
//!  * an 802.15.4 data frame without any destination addressing is, per IEEE 802.15.4, for the
//!    coordinator of its SOURCE PAN: with a foreign source PAN it is "for another PAN" (R1); with
//!    our own PAN as source PAN it is recorded only (`observations.lowpan_no_dst_addressing_*`).
//!  * "802.15.4 frames for another PAN" is the only 802.15.4 link-layer clause of the statement:
//!    a frame for another station's extended address inside our PAN is NOT judged by R1 (radios
//!    normally filter it in hardware); such cells are executed and counted under
//!    `observations.lowpan_other_station_*` only.
//!  * Ethernet multicast destination MACs are not "another station" (a multicast frame is for
//!    every listener); only a foreign unicast MAC triggers R1.
//!  * unspecified and loopback IP destinations are neither "foreign unicast" nor "ours": R1 does
//!    not judge them (R5 judges loopback for TCP as the statement says).
//!  * R2 for an address-bound UDP socket: a datagram to a broadcast/multicast destination that
//!    the interface accepted counts as matching (it is addressed to every address of the
//!    interface; `udp::Socket::accepts` does this on purpose). TCP and ICMP(Udp endpoint)
//!    address-bound sockets are judged strictly (destination == bound address), which is also
//!    what the stack implements.
//!  * R2: a UDP socket that was never bound, or was bound and closed again, has no endpoint, so
//!    ANY change of its image is a violation (destination port 0 is part of the port dimension).
//!  * R2 for the DNS socket: "bound endpoint" = the local port of the pending query.
//!  * R3 "sent to a broadcast or multicast destination" is read at the IP layer only: a unicast
//!    IP packet inside a broadcast/multicast link-layer frame is not judged (counted under
//!    `observations.error_or_rst_for_ll_bcast_ip_unicast`).
//!  * R3 non-unicast source = {unspecified, broadcast, multicast} exactly as listed; loopback
//!    and the interface's own address as source are executed but not judged by R3.
//!  * AnyIP on: foreign destinations (unicast, ARP targets, and - because this tree asks
//!    `has_ip_addr()` before the group membership - never-joined multicast groups) are not judged by R1 (the statement
//!    does not define AnyIP; documented: accepted when routed via an own address; this tree
//!    accepts every address). Counted under `observations.any_ip_*`. For the same reason R5 does
//!    not judge TCP to a loopback destination while AnyIP is on.
//!  * raw sockets are outside "TCP, UDP, ICMP or DNS socket": what they receive is never judged.
//!  * The property quantifies over valid packets of supported protocols: unknown IP protocols,
//!    extension headers, fragments are not part of this table.

#[macro_use]
mod model;
mod ctx;
mod hist;
mod pkt;
mod timed;
mod world;

use crate::core::*;
use crate::wirecheck::Addr;
use model::*;
use pkt::{Out, OutKind};
use rayon::prelude::*;
use serde_json::{json, Value};
use smoltcp::wire::Ieee802154Address;
use std::collections::{BTreeMap, BTreeSet};
use std::panic::{catch_unwind, AssertUnwindSafe};
use world::{TcpSnap, World};

const R1: usize = 0;
const R2: usize = 1;
const R3: usize = 2;
const R4: usize = 3;
const R5: usize = 4;
const RULES: [&str; 5] = ["R1", "R2", "R3", "R4", "R5"];

// ---------------------------------------------------------------------------------------
// table
// ---------------------------------------------------------------------------------------

fn two_addrs() -> bool {
    smoltcp::config::IFACE_MAX_ADDR_COUNT >= 2
}

/// destination address of the cell (the second own address depends on the address table layout)
fn cell_dst(c: &Cell) -> Option<Addr> {
    if c.dst == Dst::Own2 {
        own2_addr(c.ver, c.layout)
    } else {
        dst_addr(c.ver, c.dst)
    }
}

fn ll_alphabet(m: Med) -> &'static [LlDst] {
    match m {
        Med::Ip => &[LlDst::NoLl],
        Med::Eth => &[LlDst::Own, LlDst::OtherUni, LlDst::Bcast, LlDst::Mcast],
        Med::Lowpan => &[
            LlDst::PanOwnExtOwn,
            LlDst::PanOwnExtOther,
            LlDst::PanOwnShortBcast,
            LlDst::PanBcastExtOwn,
            LlDst::PanBcastShortBcast,
            LlDst::PanOtherExtOwn,
            LlDst::PanOtherShortBcast,
            LlDst::NoDstSrcPanOther,
            LlDst::NoDstSrcPanOwn,
        ],
    }
}

/// Is this combination meaningful? (Everything that is not is skipped and NOT counted.)
fn valid(c: &Cell) -> bool {
    if c.med == Med::Lowpan && c.ver != Ver::V6 {
        return false; // 6LoWPAN carries IPv6 only
    }
    if !ll_alphabet(c.med).contains(&c.ll) {
        return false;
    }
    if cell_dst(c).is_none() || src_addr(c.ver, c.src).is_none() {
        return false; // (includes: no second own address of this IP version in this layout)
    }
    if c.layout != Layout::Same2 && !two_addrs() {
        return false;
    }
    if c.dst == Dst::Own2 && !two_addrs() {
        return false;
    }
    match c.layout {
        Layout::Same2 | Layout::V4V6 | Layout::V6V4 => {}
        // the IPv4-only layouts are exercised with IPv4 packets
        Layout::Host32First | Layout::TwoSubnets => {
            if c.ver != Ver::V4 {
                return false;
            }
        }
    }
    if (c.routes != RouteCfg::DefaultForeign || c.any_ip) && (c.layout != Layout::Same2 || !c.primed || c.prefix != Prefix::NoPrefix || c.auto_first.is_some()) {
        return false;
    }
    if c.routes != RouteCfg::DefaultForeign && smoltcp::config::IFACE_MAX_ROUTE_COUNT < 2 {
        return false;
    }
    // the second subnet's broadcast address only exists where the second subnet is configured
    if (c.dst == Dst::Subnet2Bcast || c.src == Src::Bcast2) && c.layout != Layout::TwoSubnets {
        return false;
    }
    if matches!(c.port, Port::DstZero | Port::SrcZero) && !(c.kind == Kind::Udp || c.kind.is_tcp()) {
        return false; // port 0 exists for UDP and TCP only
    }
    match c.kind {
        Kind::Arp => {
            // ARP: the "IP destination" is the target protocol address; there is no port
            if c.med != Med::Eth || c.ver != Ver::V4 || !c.pm() {
                return false;
            }
            if !matches!(c.dst, Dst::Own | Dst::Own2 | Dst::OtherOnLink | Dst::OffLink | Dst::SubnetBcast | Dst::Unspec) {
                return false;
            }
        }
        Kind::Ns => {
            // port relation = "target is our address" / "target is another node's address"
            if c.ver != Ver::V6 {
                return false;
            }
        }
        Kind::DnsResp => {
            // needs the pending query's port, learnt from the query on the wire
            if c.sock != Sock::Dns {
                return false;
            }
        }
        _ => {}
    }
    if c.sock == Sock::Dns && !(c.primed || c.med == Med::Ip) {
        // with a cold neighbor cache the DNS query stays queued behind neighbor discovery; a
        // later frame that teaches the neighbor would release it and the DNS socket image would
        // change for a reason that is not a delivery. The DNS configuration therefore only runs
        // on the primed base.
        return false;
    }
    if c.med == Med::Ip && !c.primed {
        return false; // no neighbor cache on Medium::Ip: one base only
    }
    if let Some(f) = &c.auto_first {
        let fc = Cell { kind: f.kind, ll: f.ll, dst: f.dst, src: f.src, port: f.port, auto_first: None, ..*c };
        if c.prefix != Prefix::NoPrefix || !valid(&fc) {
            return false;
        }
    }
    match c.prefix {
        Prefix::NoPrefix => {}
        Prefix::Teach => {
            if c.primed || c.med == Med::Ip {
                return false;
            }
        }
        _ => {
            if !c.primed {
                return false;
            }
        }
    }
    true
}

struct Plan {
    socks: Vec<Sock>,
    joined: Vec<bool>,
    primed: Vec<bool>,
    prefixes: Vec<Prefix>,
    d2_socks: Vec<Sock>,
    d2_joined: Vec<bool>,
    /// socket configurations run on the cold-neighbor-cache base
    cold_socks: Vec<Sock>,
    /// generic depth 2 (every state-changing cell as first frame)
    auto_d2: bool,
    ports: Vec<Port>,
    /// run the "group G not joined" base only for destination class group-g (the only class
    /// whose treatment depends on the membership) instead of for the whole table
    unjoined_only_for_group_g: bool,
    /// destination port 0 for TCP only with the SYN (quick tier)
    tcp_port0_only_syn: bool,
    /// non-default address table layouts: socket configurations, neighbor cache bases, whether
    /// 802.15.4 is included, whether the hand-picked first frames are run (sockets=std)
    x_socks: Vec<Sock>,
    x_primed: Vec<bool>,
    x_lowpan: bool,
    x_d2: bool,
    /// non-default routing tables / AnyIP: only unicast destination classes (quick tier)
    r_unicast_dst_only: bool,
    /// quick tier: on 802.15.4 only the first frames teach / syn-to-own / handshake
    lowpan_d2_reduced: bool,
}

fn plan(tier: Tier) -> Plan {
    match tier {
        Tier::Quick => Plan {
            socks: Sock::ALL.to_vec(),
            joined: vec![false, true],
            primed: vec![true, false],
            prefixes: vec![Prefix::Teach, Prefix::SynOwn, Prefix::SynBcast, Prefix::SynBcastQueued, Prefix::UdpOwn, Prefix::Handshake],
            d2_socks: vec![Sock::Std],
            d2_joined: vec![true],
            cold_socks: vec![Sock::Std],
            auto_d2: false,
            // source port 0 ("for completeness") only in the thorough tier
            ports: vec![Port::Match, Port::NoMatch, Port::DstZero],
            unjoined_only_for_group_g: true,
            tcp_port0_only_syn: true,
            x_socks: vec![Sock::Std],
            x_primed: vec![true],
            x_lowpan: false,
            x_d2: false,
            r_unicast_dst_only: true,
            lowpan_d2_reduced: true,
        },
        Tier::Thorough => Plan {
            socks: Sock::ALL.to_vec(),
            joined: vec![false, true],
            primed: vec![true, false],
            prefixes: vec![Prefix::Teach, Prefix::SynOwn, Prefix::SynBcast, Prefix::SynBcastQueued, Prefix::UdpOwn, Prefix::Handshake],
            d2_socks: Sock::ALL.to_vec(),
            d2_joined: vec![false, true],
            cold_socks: Sock::ALL.to_vec(),
            auto_d2: true,
            ports: Port::ALL.to_vec(),
            unjoined_only_for_group_g: false,
            tcp_port0_only_syn: false,
            x_socks: vec![Sock::NoSock, Sock::Std, Sock::Bound],
            x_primed: vec![true, false],
            x_lowpan: true,
            x_d2: true,
            r_unicast_dst_only: false,
            lowpan_d2_reduced: false,
        },
    }
}

/// all cells of one base configuration (everything but the packet coordinates fixed)
#[allow(clippy::too_many_arguments)]
fn push_cells(v: &mut Vec<Cell>, p: &Plan, prefix: Prefix, med: Med, ver: Ver, layout: Layout, primed: bool, sock: Sock, joined: bool) {
    push_cells_routed(v, p, prefix, med, ver, layout, RouteCfg::DefaultForeign, false, false, primed, sock, joined)
}

/// `unicast_dst_only`: only the destination classes the routing table can matter for (own,
/// foreign unicast, loopback) and only matching / not matching ports (quick tier)
#[allow(clippy::too_many_arguments)]
fn push_cells_routed(v: &mut Vec<Cell>, p: &Plan, prefix: Prefix, med: Med, ver: Ver, layout: Layout, routes: RouteCfg, any_ip: bool, unicast_dst_only: bool, primed: bool, sock: Sock, joined: bool) {
    for &kind in Kind::ALL {
        for &ll in ll_alphabet(med) {
            for &dst in Dst::ALL {
                if unicast_dst_only && !(dst.is_foreign_unicast() || matches!(dst, Dst::Own | Dst::Own2 | Dst::Loopback)) {
                    continue;
                }
                // (depth >= 2 always: the membership only matters for group-g)
                if (p.unjoined_only_for_group_g || prefix != Prefix::NoPrefix) && !joined && dst != Dst::GroupG {
                    continue;
                }
                for &src in Src::ALL {
                    if unicast_dst_only && !matches!(src, Src::OnLink | Src::OffLink | Src::Own | Src::Unspec) {
                        continue;
                    }
                    for &port in &p.ports {
                        if p.tcp_port0_only_syn && port == Port::DstZero && kind.is_tcp() && kind != Kind::TcpSyn {
                            continue;
                        }
                        if unicast_dst_only && !matches!(port, Port::Match | Port::NoMatch) {
                            continue;
                        }
                        let c = Cell { med, ver, kind, ll, dst, src, port, sock, joined, primed, prefix, auto_first: None, layout, routes, any_ip };
                        if valid(&c) {
                            v.push(c);
                        }
                    }
                }
            }
        }
    }
}

fn enumerate(p: &Plan) -> Vec<Cell> {
    let mut v = vec![];
    let mut prefixes = vec![Prefix::NoPrefix];
    prefixes.extend(p.prefixes.iter().copied());
    // the default address table layout: the full table
    for &prefix in &prefixes {
        let (socks, joineds) = if prefix == Prefix::NoPrefix { (&p.socks, &p.joined) } else { (&p.d2_socks, &p.d2_joined) };
        for &med in &[Med::Ip, Med::Eth, Med::Lowpan] {
            for &ver in Ver::ALL {
                for &primed in &p.primed {
                    for &sock in socks {
                        if !primed && !p.cold_socks.contains(&sock) {
                            continue;
                        }
                        if p.lowpan_d2_reduced && med == Med::Lowpan && matches!(prefix, Prefix::SynBcast | Prefix::SynBcastQueued | Prefix::UdpOwn) {
                            continue; // quick tier: these first frames exercise IP-layer code shared with Ethernet
                        }
                        for &joined in joineds {
                            push_cells(&mut v, p, prefix, med, ver, Layout::Same2, primed, sock, joined);
                        }
                    }
                }
            }
        }
    }
    // the other address table layouts: group G joined, reduced socket configurations
    for &prefix in &prefixes {
        if prefix != Prefix::NoPrefix && !p.x_d2 {
            continue;
        }
        for &layout in &Layout::ALL[1..] {
            for &med in &[Med::Ip, Med::Eth, Med::Lowpan] {
                if med == Med::Lowpan && !p.x_lowpan {
                    continue;
                }
                for &ver in Ver::ALL {
                    for &primed in &p.x_primed {
                        for &sock in &p.x_socks {
                            if prefix != Prefix::NoPrefix && sock != Sock::Std {
                                continue;
                            }
                            push_cells(&mut v, p, prefix, med, ver, layout, primed, sock, true);
                        }
                    }
                }
            }
        }
    }
    // the other routing table configurations x AnyIP (default address table, depth 1, primed)
    for &routes in RouteCfg::ALL {
        for any_ip in [false, true] {
            if routes == RouteCfg::DefaultForeign && !any_ip {
                continue; // = the full table above
            }
            for &med in &[Med::Ip, Med::Eth, Med::Lowpan] {
                if med == Med::Lowpan && !p.x_lowpan {
                    continue;
                }
                for &ver in Ver::ALL {
                    for &sock in &p.x_socks {
                        // AnyIP on is not judged by R1: the reduced destination/source/port set suffices
                        push_cells_routed(&mut v, p, Prefix::NoPrefix, med, ver, Layout::Same2, routes, any_ip, p.r_unicast_dst_only || any_ip, true, sock, true);
                    }
                }
            }
        }
    }
    v
}

// ---------------------------------------------------------------------------------------
// stimulus
// ---------------------------------------------------------------------------------------

fn ll_wrap(c: &Cell, src: &Addr, dst: &Addr, proto: u8, hop: u8, l4: &[u8]) -> Vec<u8> {
    match c.med {
        Med::Ip => pkt::ip_packet(src, dst, proto, hop, l4),
        Med::Eth => {
            let mac = match c.ll {
                LlDst::Own => MY_MAC,
                LlDst::OtherUni => OTHER_MAC,
                LlDst::Bcast => [0xff; 6],
                _ => mapped_mac(dst),
            };
            let et = if c.ver == Ver::V4 { 0x0800 } else { 0x86dd };
            pkt::eth(&mac, &PEER_MAC, et, &pkt::ip_packet(src, dst, proto, hop, l4))
        }
        Med::Lowpan if matches!(c.ll, LlDst::NoDstSrcPanOther | LlDst::NoDstSrcPanOwn) => {
            let pan = if c.ll == LlDst::NoDstSrcPanOther { PAN_OTHER } else { PAN_OWN };
            world::lowpan_frame_no_dst(pan, PEER_EXT, src, dst, proto, hop, l4)
        }
        Med::Lowpan => {
            let (pan, a) = match c.ll {
                LlDst::PanOwnExtOwn => (PAN_OWN, Ieee802154Address::Extended(MY_EXT)),
                LlDst::PanOwnExtOther => (PAN_OWN, Ieee802154Address::Extended(OTHER_EXT)),
                LlDst::PanOwnShortBcast => (PAN_OWN, Ieee802154Address::BROADCAST),
                LlDst::PanBcastExtOwn => (PAN_BCAST, Ieee802154Address::Extended(MY_EXT)),
                LlDst::PanBcastShortBcast => (PAN_BCAST, Ieee802154Address::BROADCAST),
                LlDst::PanOtherExtOwn => (PAN_OTHER, Ieee802154Address::Extended(MY_EXT)),
                _ => (PAN_OTHER, Ieee802154Address::BROADCAST),
            };
            world::lowpan_frame(pan, a, Ieee802154Address::Extended(PEER_EXT), src, dst, proto, hop, l4)
        }
    }
}

/// source port of the cell's UDP/TCP packet
fn src_port(c: &Cell) -> u16 {
    match (c.kind, c.port) {
        (Kind::DnsResp, _) => 53,
        (_, Port::SrcZero) => 0,
        _ => PEER_PORT,
    }
}
/// destination port of the cell's TCP segment
fn tcp_dst_port(c: &Cell) -> u16 {
    match c.port {
        Port::Match | Port::SrcZero => TCP_PORT,
        Port::NoMatch => TCP_PORT + 1,
        Port::DstZero => 0,
    }
}

/// The one frame of the cell. `ack`: acknowledgement number for ACK/data segments (the stack's
/// ISN+1 when a SYN-ACK was seen in the prefix).
fn build_frame(c: &Cell, w: &World, ack: u32) -> Vec<u8> {
    let a = addrs(c.ver);
    let dst = cell_dst(c).unwrap();
    let src = src_addr(c.ver, c.src).unwrap();
    let icmp_proto = if c.ver == Ver::V4 { 1 } else { 58 };
    let (tcp_port, udp_port) = match c.port {
        Port::Match | Port::SrcZero => (TCP_PORT, UDP_PORT),
        Port::NoMatch => (TCP_PORT + 1, UDP_PORT + 1),
        Port::DstZero => (0, 0),
    };
    let sport = src_port(c);
    match c.kind {
        Kind::Arp => {
            let (Addr::V4(spa), Addr::V4(tpa)) = (&src, &dst) else { unreachable!() };
            let mac = match c.ll {
                LlDst::Own => MY_MAC,
                LlDst::OtherUni => OTHER_MAC,
                LlDst::Bcast => [0xff; 6],
                _ => [0x01, 0x00, 0x5e, 0, 0, 1],
            };
            pkt::eth(&mac, &PEER_MAC, 0x0806, &pkt::arp_request(&PEER_MAC, spa, tpa))
        }
        Kind::Echo => {
            let ident = if c.pm() { ICMP_IDENT } else { ICMP_IDENT + 1 };
            ll_wrap(c, &src, &dst, icmp_proto, 64, &pkt::echo_request(&src, &dst, ident, 1, b"ping"))
        }
        Kind::IcmpErr => {
            // "port unreachable" about a datagram we supposedly sent from our UDP port to the peer
            let emb_src = if matches!(c.dst, Dst::Own | Dst::Own2) { dst.clone() } else { a.my.clone() };
            let u = pkt::udp(&emb_src, &a.peer, udp_port, PEER_PORT, b"abcd");
            let orig = pkt::ip_packet(&emb_src, &a.peer, 17, 63, &u);
            ll_wrap(c, &src, &dst, icmp_proto, 64, &pkt::port_unreachable(&src, &dst, &orig))
        }
        Kind::Udp => ll_wrap(c, &src, &dst, 17, 64, &pkt::udp(&src, &dst, sport, udp_port, b"abcd")),
        Kind::DnsResp => {
            let port = if c.pm() { w.dns_port } else { w.dns_port.wrapping_add(1) };
            ll_wrap(c, &src, &dst, 17, 64, &pkt::udp(&src, &dst, 53, port, &pkt::dns_nxdomain(w.dns_txid)))
        }
        Kind::TcpSyn => ll_wrap(c, &src, &dst, 6, 64, &pkt::tcp(&src, &dst, sport, tcp_port, PEER_ISN, 0, pkt::TCP_SYN, 1024, &[])),
        Kind::TcpAck => ll_wrap(c, &src, &dst, 6, 64, &pkt::tcp(&src, &dst, sport, tcp_port, PEER_ISN + 1, ack, pkt::TCP_ACK, 1024, &[])),
        Kind::TcpRst => ll_wrap(c, &src, &dst, 6, 64, &pkt::tcp(&src, &dst, sport, tcp_port, PEER_ISN + 1, 0, pkt::TCP_RST, 0, &[])),
        Kind::TcpData => ll_wrap(
            c,
            &src,
            &dst,
            6,
            64,
            &pkt::tcp(&src, &dst, sport, tcp_port, PEER_ISN + 1, ack, pkt::TCP_ACK | pkt::TCP_PSH, 1024, b"data"),
        ),
        Kind::Ns => {
            let target = if c.pm() { &a.my } else { &a.other };
            let Addr::V6(t) = target else { unreachable!() };
            let sll: &[u8] = if c.med == Med::Lowpan { &PEER_EXT } else { &PEER_MAC };
            ll_wrap(c, &src, &dst, 58, 255, &pkt::neighbor_solicit(&src, &dst, t, Some(sll)))
        }
    }
}

/// First frame of a depth-2 sequence (always from the on-link peer, link-layer destination us).
fn prefix_frame(c: &Cell, w: &World) -> Option<Vec<u8>> {
    let a = addrs(c.ver);
    let base = Cell {
        ll: match c.med {
            Med::Ip => LlDst::NoLl,
            Med::Eth => LlDst::Own,
            Med::Lowpan => LlDst::PanOwnExtOwn,
        },
        src: Src::OnLink,
        port: Port::Match,
        ..*c
    };
    match c.prefix {
        Prefix::NoPrefix => None,
        Prefix::Teach => Some(w.teach_frame(&a.peer, &PEER_MAC, &PEER_EXT)),
        Prefix::SynOwn | Prefix::Handshake => Some(build_frame(&Cell { kind: Kind::TcpSyn, dst: Dst::Own, ..base }, w, 0)),
        Prefix::SynBcast | Prefix::SynBcastQueued => {
            let dst = if c.ver == Ver::V4 { Dst::SubnetBcast } else { Dst::AllNodes };
            let ll = match c.med {
                Med::Ip => LlDst::NoLl,
                Med::Eth => LlDst::Bcast,
                Med::Lowpan => LlDst::PanOwnShortBcast,
            };
            Some(build_frame(&Cell { kind: Kind::TcpSyn, dst, ll, ..base }, w, 0))
        }
        Prefix::UdpOwn => Some(build_frame(&Cell { kind: Kind::Udp, dst: Dst::Own, ..base }, w, 0)),
    }
}

// ---------------------------------------------------------------------------------------
// execution + oracle
// ---------------------------------------------------------------------------------------

struct Exec {
    prefix_hex: Option<String>,
    prefix_outs: Vec<Out>,
    frame_hex: String,
    pre_images: Vec<(&'static str, String)>,
    post_images: Vec<(&'static str, String)>,
    pre_tcp: Option<TcpSnap>,
    /// after `poll_ingress_single`, before the egress poll
    mid_images: Vec<(&'static str, String)>,
    mid_tcp: Option<TcpSnap>,
    post_tcp: Option<TcpSnap>,
    outs: Vec<Out>,
    setup_log: Vec<String>,
    errors: Vec<String>,
    /// fingerprint of the complete state after the cell (state merging only)
    state_fp: u128,
}

fn execute(c: &Cell) -> Exec {
    execute_opt(c, false, false)
}
/// with the additional set-up stability proof (re-executions, replay, samples)
fn execute_strict(c: &Cell) -> Exec {
    execute_opt(c, false, true)
}

fn execute_opt(c: &Cell, want_state_fp: bool, strict: bool) -> Exec {
    let mut w = World::new_routed(c.med, c.ver, c.layout, c.routes, c.any_ip, c.sock, c.joined, c.primed, strict);
    let mut ack = DEFAULT_ACK;
    let mut prefix_hex = None;
    let mut prefix_outs = vec![];
    if let Some(f) = &c.auto_first {
        let fc = Cell { kind: f.kind, ll: f.ll, dst: f.dst, src: f.src, port: f.port, auto_first: None, ..*c };
        let pf = build_frame(&fc, &w, ack);
        prefix_hex = Some(pkt::hex(&pf));
        prefix_outs = w.apply(&pf);
        for o in &prefix_outs {
            if o.kind == OutKind::TcpSynAck {
                if let Some((_, _, seq, _, _)) = o.l4 {
                    ack = seq.wrapping_add(1);
                }
            }
        }
        let extra = w.poll_collect();
        if !extra.is_empty() {
            w.errors.push("first frame not quiescent".into());
        }
    }
    if let Some(pf) = prefix_frame(c, &w) {
        prefix_hex = Some(pkt::hex(&pf));
        prefix_outs = if c.prefix == Prefix::SynBcastQueued { w.apply_ingress_only(&pf) } else { w.apply(&pf) };
        for o in &prefix_outs {
            if o.kind == OutKind::TcpSynAck {
                if let Some((_, _, seq, _, _)) = o.l4 {
                    ack = seq.wrapping_add(1);
                }
            }
        }
        if c.prefix == Prefix::Handshake {
            // third step of the handshake (depth 3): ACK of the stack's SYN-ACK
            let base = Cell { kind: Kind::TcpAck, dst: Dst::Own, src: Src::OnLink, port: Port::Match, ..*c };
            let base = Cell {
                ll: match c.med {
                    Med::Ip => LlDst::NoLl,
                    Med::Eth => LlDst::Own,
                    Med::Lowpan => LlDst::PanOwnExtOwn,
                },
                ..base
            };
            let f2 = build_frame(&base, &w, ack);
            prefix_hex = Some(format!("{} then {}", prefix_hex.unwrap_or_default(), pkt::hex(&f2)));
            prefix_outs.extend(w.apply(&f2));
            if c.sock != Sock::NoSock && w.tcp_snap().map(|t| t.state) != Some("Established".to_string()) {
                w.errors.push("handshake prefix did not establish the connection".into());
            }
        }
        // the first frame must be fully digested before the cell's frame is judged
        if c.prefix != Prefix::SynBcastQueued {
            let extra = w.poll_collect();
            if !extra.is_empty() {
                w.errors.push("prefix not quiescent".into());
            }
        }
    }
    let frame = build_frame(c, &w, ack);
    let pre_images = w.images();
    let pre_tcp = w.tcp_snap();
    let (outs, (mid_images, mid_tcp)) = w.apply_mid(&frame);
    Exec {
        mid_images,
        mid_tcp,
        prefix_hex,
        prefix_outs,
        frame_hex: pkt::hex(&frame),
        pre_images,
        post_images: w.images(),
        pre_tcp,
        post_tcp: w.tcp_snap(),
        state_fp: if want_state_fp { w.state_fp() } else { 0 },
        outs,
        setup_log: std::mem::take(&mut w.setup_log),
        errors: std::mem::take(&mut w.errors),
    }
}

#[derive(Default)]
struct Verdict {
    relevant: [bool; 5],
    viols: Vec<(usize, String, String)>, // (rule, signature, what)
    outcome: String,
    delivered: Vec<&'static str>,
    /// informational observations (lenient readings), name -> 1
    notes: Vec<&'static str>,
}

fn judge(c: &Cell, e: &Exec) -> Verdict {
    let mut v = Verdict::default();
    let dst = cell_dst(c).unwrap();
    let src = src_addr(c.ver, c.src).unwrap();
    let a = addrs(c.ver);
    let k = c.kind.name();
    let ver = c.ver.name();
    let d = c.dst.name();

    // ---- observations ----
    // delivery = the socket image changed during `poll_ingress_single` (sockets are only fed
    // there; later changes are consequences in the egress pass, e.g. a SYN-ACK timer)
    for ((n, pre), (_, mid)) in e.pre_images.iter().zip(e.mid_images.iter()) {
        if pre != mid {
            v.delivered.push(*n);
        }
    }
    let mut replies: BTreeSet<String> = BTreeSet::new();
    for o in &e.outs {
        replies.insert(o.kind.name());
    }
    let err_outs: Vec<&Out> = e.outs.iter().filter(|o| o.kind.is_error_or_rst()).collect();
    v.outcome = {
        let mut s = String::new();
        if !v.delivered.is_empty() {
            s.push_str(&format!("delivered[{}]", v.delivered.join(",")));
        }
        if !replies.is_empty() {
            if !s.is_empty() {
                s.push('+');
            }
            s.push_str(&format!("replied[{}]", replies.iter().cloned().collect::<Vec<_>>().join(",")));
        }
        if s.is_empty() {
            s.push_str("silent");
        }
        s
    };

    // ---- R1 ----
    let ll_trigger = match c.ll {
        LlDst::OtherUni => Some("other-station"),
        LlDst::PanOtherExtOwn | LlDst::PanOtherShortBcast => Some("other-pan"),
        // no destination addressing + foreign source PAN: addressed to the coordinator of that
        // other PAN (IEEE 802.15.4)
        LlDst::NoDstSrcPanOther => Some("no-dst-addressing-other-pan"),
        _ => None,
    };
    let ip_foreign = match c.kind {
        Kind::Arp => matches!(c.dst, Dst::OtherOnLink | Dst::OffLink),
        _ => c.dst.is_always_foreign() || (c.dst == Dst::GroupG && !c.joined),
    };
    // AnyIP on: the user declared addresses other than the configured ones to be "received
    // locally" (documented: those routed via one of our own addresses; this tree's
    // `has_ip_addr()` then answers true for EVERY address). The statement does not define AnyIP:
    // foreign UNICAST destinations (and ARP targets) are not judged by R1 while it is on, only
    // recorded, split by whether the documented rule (live route via an own address) covers them.
    // In this tree AnyIP also lets packets for multicast groups that were never joined through
    // (`has_ip_addr()` is asked before the multicast membership): equally recorded, not judged.
    let any_ip_exempt = c.any_ip && ip_foreign;
    if any_ip_exempt && ll_trigger.is_none() && !(c.dst.is_foreign_unicast() || c.kind == Kind::Arp) {
        let accepted = !v.delivered.is_empty() || !replies.is_empty();
        v.notes.push(if accepted { "any_ip_on_unjoined_multicast_group_accepted(beyond the documented rule, not judged)" } else { "any_ip_on_unjoined_multicast_group_silent" });
    } else if any_ip_exempt && ll_trigger.is_none() {
        let documented = routed_via_own(c.routes, c.dst);
        let accepted = !v.delivered.is_empty() || !replies.is_empty();
        v.notes.push(match (documented, accepted) {
            (true, true) => "any_ip_on_foreign_unicast_routed_via_own_address_accepted(documented)",
            (true, false) => "any_ip_on_foreign_unicast_routed_via_own_address_silent",
            (false, true) => "any_ip_on_foreign_unicast_NOT_routed_via_own_address_accepted(beyond the documented rule, not judged)",
            (false, false) => "any_ip_on_foreign_unicast_NOT_routed_via_own_address_silent",
        });
    }
    let ip_foreign = ip_foreign && !any_ip_exempt;
    let trigger = ll_trigger.or(if ip_foreign { Some("foreign-ip") } else { None });
    if let Some(t) = trigger {
        v.relevant[R1] = true;
        for s in &v.delivered {
            v.viols.push((R1, format!("C11/R1/{}/{}/{}/{}-delivered-{}", k, ver, d, t, s), format!("not addressed to the interface ({}) but socket '{}' changed", t, s)));
        }
        for r in &replies {
            v.viols.push((R1, format!("C11/R1/{}/{}/{}/{}-answered-{}", k, ver, d, t, r), format!("not addressed to the interface ({}) but a frame ({}) was emitted", t, r)));
        }
    }
    if c.ll == LlDst::NoDstSrcPanOwn {
        // lenient: no destination addressing with OUR PAN as source PAN means "for the coordinator
        // of our PAN"; whether the interface is that coordinator is not modelled: recorded only
        if !v.delivered.is_empty() {
            v.notes.push("lowpan_no_dst_addressing_own_pan_delivered");
        } else if !replies.is_empty() {
            v.notes.push("lowpan_no_dst_addressing_own_pan_answered");
        } else {
            v.notes.push("lowpan_no_dst_addressing_own_pan_silent");
        }
    }
    if c.ll == LlDst::PanOwnExtOther {
        if !v.delivered.is_empty() {
            v.notes.push("lowpan_other_station_delivered");
        } else if !replies.is_empty() {
            v.notes.push("lowpan_other_station_answered");
        } else {
            v.notes.push("lowpan_other_station_silent");
        }
    }

    if matches!(c.dst, Dst::Loopback | Dst::Unspec) && ll_trigger.is_none() {
        if !v.delivered.is_empty() {
            v.notes.push(if c.dst == Dst::Loopback { "loopback_dst_from_network_delivered" } else { "unspecified_dst_delivered" });
        }
        if !replies.is_empty() {
            v.notes.push(if c.dst == Dst::Loopback { "loopback_dst_from_network_answered" } else { "unspecified_dst_answered" });
        }
    }
    if c.sock == Sock::Bound && c.dst.is_bcast_mcast() && v.delivered.contains(&"udp") {
        v.notes.push("addr_bound_udp_socket_received_bcast_or_mcast");
    }

    if c.src.is_non_unicast() && !v.delivered.is_empty() {
        // not demanded by the statement (R3 speaks of RSTs and ICMP errors, R5 of destinations)
        v.notes.push("non_unicast_source_changed_a_socket");
    }

    // ---- R2 ----
    if c.sock != Sock::NoSock {
        v.relevant[R2] = true;
    }
    let bound = c.sock == Sock::Bound;
    for s in &v.delivered {
        let mismatch: Option<&str> = match *s {
            "tcp" => {
                let dport = tcp_dst_port(c);
                let sport = src_port(c);
                match &e.pre_tcp {
                    _ if !c.kind.is_tcp() => Some("protocol"),
                    None => Some("protocol"),
                    Some(t) => {
                        if let (Some(l), Some(r)) = (&t.local, &t.remote) {
                            if l.1 != dport || r.1 != sport {
                                Some("port")
                            } else if l.0 != dst || r.0 != src {
                                Some("addr")
                            } else {
                                None
                            }
                        } else if t.state == "Listen" {
                            if t.listen.1 != dport {
                                Some("port")
                            } else if t.listen.0.as_ref().is_some_and(|x| *x != dst) {
                                Some("addr")
                            } else {
                                None
                            }
                        } else {
                            Some("closed-socket")
                        }
                    }
                }
            }
            "udp" => {
                if !matches!(c.kind, Kind::Udp) {
                    // (a DNS response goes to the query's ephemeral port, never UDP_PORT)
                    Some("protocol")
                } else if !c.pm() {
                    Some("port")
                } else if bound && dst != a.my && !c.dst.is_bcast_mcast() {
                    Some("addr")
                } else {
                    None
                }
            }
            // a UDP socket that was never bound, or was closed again, has no endpoint: nothing
            // matches it
            "udp-unbound" | "udp-closed" => Some("no-endpoint"),
            "icmp-ident" => {
                if c.kind != Kind::Echo {
                    Some("protocol")
                } else if !c.pm() {
                    Some("ident")
                } else {
                    None
                }
            }
            "icmp-udp" => {
                if c.kind != Kind::IcmpErr {
                    Some("protocol")
                } else if !c.pm() {
                    Some("port")
                } else if bound && dst != a.my {
                    Some("addr")
                } else {
                    None
                }
            }
            "dns" => {
                if c.kind != Kind::DnsResp {
                    Some("protocol")
                } else if !c.pm() {
                    Some("port")
                } else {
                    None
                }
            }
            _ => Some("unknown-socket"),
        };
        if let Some(m) = mismatch {
            v.viols.push((R2, format!("C11/R2/{}/{}/{}/delivered-{}-{}-mismatch", k, ver, d, s, m), format!("socket '{}' received a packet that does not match its endpoint ({})", s, m)));
        }
    }

    // ---- R3 ----
    let dst_trig = c.dst.is_bcast_mcast();
    let src_trig = c.src.is_non_unicast();
    if c.kind != Kind::Arp && (dst_trig || src_trig) {
        v.relevant[R3] = true;
        for o in &err_outs {
            let sig = if dst_trig {
                format!("C11/R3/{}/{}/{}/{}-sent", k, ver, d, o.kind.name())
            } else {
                format!("C11/R3/{}/{}/{}/src-{}/{}-sent", k, ver, d, c.src.name(), o.kind.name())
            };
            v.viols.push((R3, sig, format!("{} emitted in answer to a packet with destination class {} / source class {}: {}", o.kind.name(), d, c.src.name(), o.describe())));
        }
    } else if !err_outs.is_empty() && matches!(c.ll, LlDst::Bcast | LlDst::Mcast | LlDst::PanOwnShortBcast | LlDst::PanBcastShortBcast) {
        v.notes.push("error_or_rst_for_ll_bcast_ip_unicast");
    }

    // ---- R4 ----
    if matches!(c.kind, Kind::IcmpErr | Kind::TcpRst) {
        v.relevant[R4] = true;
        for o in &err_outs {
            v.viols.push((R4, format!("C11/R4/{}/{}/{}/{}-sent", k, ver, d, o.kind.name()), format!("{} emitted in answer to an {}: {}", o.kind.name(), k, o.describe())));
        }
    }

    // ---- R5 ----
    // AnyIP on + loopback destination: with AnyIP every unicast address counts as an address of
    // the interface in this tree (and the stack deliberately serves a loopback address that IS an
    // address of the interface); the statement does not define AnyIP: recorded, not judged.
    let r5_any_ip_exempt = c.any_ip && c.dst == Dst::Loopback;
    if r5_any_ip_exempt && c.kind.is_tcp() && v.delivered.contains(&"tcp") {
        v.notes.push("any_ip_on_tcp_to_loopback_changed_the_socket(not judged)");
    }
    if c.kind.is_tcp() && (c.dst.is_bcast_mcast() || c.dst == Dst::Loopback) && c.sock != Sock::NoSock && !r5_any_ip_exempt {
        v.relevant[R5] = true;
        if v.delivered.contains(&"tcp") {
            let st = |t: &Option<TcpSnap>| t.as_ref().map(|t| t.state.clone()).unwrap_or_default();
            let (o, m, n) = (st(&e.pre_tcp), st(&e.mid_tcp), st(&e.post_tcp));
            let what = if m != n {
                format!("tcp-socket-{}-to-{}-then-{}", o, m, n)
            } else if o != n {
                format!("tcp-socket-{}-to-{}", o, n)
            } else {
                format!("tcp-socket-image-changed-in-{}", o)
            };
            v.viols.push((R5, format!("C11/R5/{}/{}/{}/{}", k, ver, d, what), format!("TCP segment to {} ({}) changed the TCP socket: {}", d, dst, what)));
        }
    }
    v
}

fn image_diff(e: &Exec) -> Vec<Value> {
    let mut v = vec![];
    for ((n, pre), (_, post)) in e.pre_images.iter().zip(e.post_images.iter()) {
        if pre != post {
            v.push(json!({"socket": n, "before": pre, "after": post}));
        }
    }
    v
}

fn detail(c: &Cell, e: &Exec, what: &str) -> String {
    let mut s = format!("{} | cell: {}", what, c.describe());
    if let Some(p) = &e.prefix_hex {
        s.push_str(&format!("\nfirst frame: {}\n  -> {:?}", p, e.prefix_outs.iter().map(|o| o.describe()).collect::<Vec<_>>()));
    }
    s.push_str(&format!("\nframe in: {}", e.frame_hex));
    for o in &e.outs {
        s.push_str(&format!("\nframe out: {} [{}]", o.describe(), pkt::hex(&o.raw)));
    }
    if let (Some(a), Some(b)) = (&e.pre_tcp, &e.post_tcp) {
        if a != b {
            s.push_str(&format!("\ntcp socket: {} -> after ingress {} -> after egress {}", a.describe(), e.mid_tcp.as_ref().map(|t| t.describe()).unwrap_or_default(), b.describe()));
        }
    }
    s
}

struct CellRes {
    verdict: Verdict,
    /// full detail text per violation (same order as verdict.viols)
    details: Vec<String>,
    errors: Vec<String>,
    panic: Option<String>,
    frames_in: u32,
    validated: bool,
    obs_fp: u128,
}

fn obs_fingerprint(e: &Exec) -> u128 {
    let outs: Vec<String> = e.outs.iter().map(|o| pkt::hex(&o.raw)).collect();
    let img = |v: &Vec<(&'static str, String)>| v.iter().map(|x| x.1.clone()).collect::<Vec<_>>();
    fp128(&(outs, img(&e.mid_images), img(&e.post_images), &e.frame_hex))
}

fn run_cell(idx: usize, c: &Cell) -> CellRes {
    let r = catch_unwind(AssertUnwindSafe(|| execute(c)));
    match r {
        Err(p) => CellRes {
            verdict: Verdict::default(),
            details: vec![],
            errors: vec![],
            panic: Some(format!("{} at {} | cell: {}", panic_msg(p), last_panic_loc(), c.describe())),
            frames_in: 0,
            validated: false,
            obs_fp: 0,
        },
        Ok(e) => {
            let verdict = judge(c, &e);
            let details = verdict.viols.iter().map(|(_, _, what)| detail(c, &e, what)).collect();
            let mut errors = e.errors.clone();
            let fp = obs_fingerprint(&e);
            // determinism / replayability proof on every 16th cell and on every violating cell
            let mut validated = false;
            if idx % 16 == 0 || !verdict.viols.is_empty() {
                match catch_unwind(AssertUnwindSafe(|| execute_strict(c))) {
                    Ok(e2) if obs_fingerprint(&e2) == fp && e2.errors.is_empty() => validated = true,
                    Ok(e2) if !e2.errors.is_empty() => errors.extend(e2.errors.iter().cloned()),
                    _ => errors.push(format!("NONDETERMINISM: re-execution differs | cell: {}", c.describe())),
                }
            }
            CellRes { verdict, details, errors, panic: None, frames_in: 1 + c.auto_first.is_some() as u32 + match c.prefix {
                Prefix::NoPrefix => 0,
                Prefix::Handshake => 2,
                _ => 1,
            }, validated, obs_fp: fp }
        }
    }
}

// ---------------------------------------------------------------------------------------
// run
// ---------------------------------------------------------------------------------------

/// Ordered, sequential aggregation of cell results (deterministic whatever the thread count).
struct Agg {
    per_rule_rel: [u64; 5],
    per_rule_viol_cells: [u64; 5],
    outcomes: BTreeMap<String, u64>,
    outcome_by_kind: BTreeMap<String, BTreeMap<String, u64>>,
    per_med: BTreeMap<String, u64>,
    per_layout: BTreeMap<String, u64>,
    per_routes: BTreeMap<String, u64>,
    per_depth: BTreeMap<String, u64>,
    delivered_per_socket: BTreeMap<String, u64>,
    notes: BTreeMap<String, u64>,
    sig_cells: BTreeMap<String, u64>,
    distinct: BTreeSet<(Kind, Ver, Dst, Src, String)>,
    obs_distinct: BTreeSet<u128>,
    frames_in: u64,
    validated: u64,
    cells: u64,
    panics: Vec<String>,
    class_counts: [u64; 3], // delivered / replied / silent
    sample_done: Vec<bool>,
    sample_cells: Vec<(&'static str, Cell)>,
}

type Pred = fn(&Cell, &Verdict) -> bool;
/// curated samples: the first cell (in enumeration order) matching each description
fn sample_wants() -> Vec<(&'static str, Pred)> {
    vec![
        ("ARP request for our address in a broadcast frame -> ARP reply", |c, v| c.kind == Kind::Arp && c.dst == Dst::Own && c.ll == LlDst::Bcast && c.src == Src::OnLink && v.outcome.contains("arp-reply")),
        ("ARP request for our address in a frame for another station -> silent (R1)", |c, _| c.kind == Kind::Arp && c.dst == Dst::Own && c.ll == LlDst::OtherUni && c.src == Src::OnLink),
        ("NS for our address to the solicited-node group over 802.15.4 -> NA", |c, v| c.med == Med::Lowpan && c.kind == Kind::Ns && c.dst == Dst::SolNode && c.pm() && c.src == Src::OnLink && v.outcome.contains("ndisc-na")),
        ("UDP to our port over 802.15.4, other PAN (R1)", |c, _| c.med == Med::Lowpan && c.kind == Kind::Udp && c.dst == Dst::Own && c.ll == LlDst::PanOtherExtOwn && c.pm() && c.sock == Sock::Std && c.src == Src::OnLink),
        ("UDP to our port, own address -> delivered", |c, v| c.med == Med::Eth && c.kind == Kind::Udp && c.dst == Dst::Own && c.ll == LlDst::Own && c.pm() && c.sock == Sock::Std && c.src == Src::OnLink && !v.delivered.is_empty()),
        ("UDP to a foreign on-link address arriving at our MAC (R1)", |c, _| c.med == Med::Eth && c.kind == Kind::Udp && c.dst == Dst::OtherOnLink && c.ll == LlDst::Own && c.pm() && c.sock == Sock::Std && c.src == Src::OnLink),
        ("UDP to the second own address, sockets bound to the first (R2)", |c, _| c.kind == Kind::Udp && c.dst == Dst::Own2 && c.pm() && c.sock == Sock::Bound && c.src == Src::OnLink),
        ("IPv4 UDP to the subnet broadcast, closed port (R3: must stay silent)", |c, _| c.ver == Ver::V4 && c.kind == Kind::Udp && c.dst == Dst::SubnetBcast && !c.pm() && c.sock == Sock::Std && c.src == Src::OnLink),
        ("IPv6 UDP to all-nodes, closed port (R3)", |c, _| c.ver == Ver::V6 && c.kind == Kind::Udp && c.dst == Dst::AllNodes && !c.pm() && c.sock == Sock::Std && c.src == Src::OnLink),
        ("echo request to all-nodes -> echo reply (allowed)", |c, v| c.kind == Kind::Echo && c.dst == Dst::AllNodes && c.src == Src::OnLink && v.outcome.contains("echo-reply")),
        ("TCP RST for a closed port (R4: no answer)", |c, _| c.kind == Kind::TcpRst && c.dst == Dst::Own && !c.pm() && c.sock == Sock::Std && c.src == Src::OnLink),
        ("data segment on the connection established by the depth-3 prefix -> delivered", |c, v| c.prefix == Prefix::Handshake && c.kind == Kind::TcpData && c.dst == Dst::Own && c.pm() && c.src == Src::OnLink && v.delivered.contains(&"tcp")),
    ]
}

impl Agg {
    fn new() -> Agg {
        Agg {
            per_rule_rel: [0; 5],
            per_rule_viol_cells: [0; 5],
            outcomes: BTreeMap::new(),
            outcome_by_kind: BTreeMap::new(),
            per_med: BTreeMap::new(),
            per_layout: BTreeMap::new(),
            per_routes: BTreeMap::new(),
            per_depth: BTreeMap::new(),
            delivered_per_socket: BTreeMap::new(),
            notes: BTreeMap::new(),
            sig_cells: BTreeMap::new(),
            distinct: BTreeSet::new(),
            obs_distinct: BTreeSet::new(),
            frames_in: 0,
            validated: 0,
            cells: 0,
            panics: vec![],
            class_counts: [0; 3],
            sample_done: vec![false; sample_wants().len()],
            sample_cells: vec![],
        }
    }

    /// execute a batch in parallel (bounded memory: chunks), aggregate in enumeration order
    fn run_batch(&mut self, rep: &mut Report, cells: &[Cell]) {
        let wants = sample_wants();
        for chunk in cells.chunks(65536) {
            let base = self.cells as usize;
            let results: Vec<CellRes> = chunk.par_iter().enumerate().map(|(i, c)| run_cell(base + i, c)).collect();
            for (c, r) in chunk.iter().zip(results.iter()) {
                self.add(rep, &wants, c, r);
            }
        }
    }

    fn add(&mut self, rep: &mut Report, wants: &[(&'static str, Pred)], c: &Cell, r: &CellRes) {
        self.cells += 1;
        if let Some(p) = &r.panic {
            self.panics.push(p.clone());
            return;
        }
        for e in &r.errors {
            if rep.machinery_errors.len() < 20 {
                rep.machinery_errors.push(format!("{} | cell: {}", e, c.describe()));
            }
        }
        self.frames_in += r.frames_in as u64;
        self.validated += r.validated as u64;
        self.obs_distinct.insert(r.obs_fp);
        let v = &r.verdict;
        *self.outcomes.entry(v.outcome.clone()).or_insert(0) += 1;
        *self.outcome_by_kind.entry(c.kind.name().to_string()).or_default().entry(v.outcome.clone()).or_insert(0) += 1;
        *self.per_med.entry(format!("{}/{}", c.med.name(), c.ver.name())).or_insert(0) += 1;
        *self.per_layout.entry(format!("{} {}", c.ver.name(), c.layout.name())).or_insert(0) += 1;
        *self.per_routes.entry(format!("{} any_ip={}", c.routes.name(), c.any_ip)).or_insert(0) += 1;
        let depth = if c.auto_first.is_some() { "first-frame=auto(every state-changing cell, merged by state fingerprint)".to_string() } else { format!("first-frame={}", c.prefix.name()) };
        *self.per_depth.entry(depth).or_insert(0) += 1;
        if !v.delivered.is_empty() {
            self.class_counts[0] += 1;
        }
        if v.outcome.contains("replied[") {
            self.class_counts[1] += 1;
        }
        if v.outcome == "silent" {
            self.class_counts[2] += 1;
        }
        for s in &v.delivered {
            *self.delivered_per_socket.entry(s.to_string()).or_insert(0) += 1;
        }
        for n in &v.notes {
            *self.notes.entry(n.to_string()).or_insert(0) += 1;
        }
        self.distinct.insert((c.kind, c.ver, c.dst, c.src, v.outcome.clone()));
        let mut rules_hit = [false; 5];
        for i in 0..5 {
            if v.relevant[i] {
                self.per_rule_rel[i] += 1;
            }
        }
        for ((rule, sig, _), det) in v.viols.iter().zip(r.details.iter()) {
            rules_hit[*rule] = true;
            *self.sig_cells.entry(sig.clone()).or_insert(0) += 1;
            rep.violation(sig.clone(), det.clone(), json!({"type": "cell", "cell": c.to_json()}));
        }
        for i in 0..5 {
            if rules_hit[i] {
                self.per_rule_viol_cells[i] += 1;
            }
        }
        for (i, (what, pred)) in wants.iter().enumerate() {
            if !self.sample_done[i] && pred(c, v) {
                self.sample_done[i] = true;
                self.sample_cells.push((*what, *c));
            }
        }
    }
}

/// Generic depth 2 (thorough tier): on one base configuration per medium/IP version, EVERY cell
/// is tried as first frame; first frames are merged by the fingerprint of the state they leave
/// behind (`Interface::verif_digest()` + `{:?}` of the SocketSet — used for merging only, never
/// as oracle) and one representative per distinct state other than the initial one is followed
/// by every cell of the same base.
fn auto_depth2(rep: &mut Report, agg: &mut Agg) -> Value {
    let mut info = vec![];
    for &med in &[Med::Ip, Med::Eth, Med::Lowpan] {
        for &ver in Ver::ALL {
            let joined = true;
            let mut base: Vec<Cell> = vec![];
            for &kind in Kind::ALL {
                for &ll in ll_alphabet(med) {
                    for &dst in Dst::ALL {
                        for &src in Src::ALL {
                            for &port in &[Port::Match, Port::NoMatch, Port::DstZero] {
                                let c = Cell { med, ver, kind, ll, dst, src, port, sock: Sock::Std, joined, primed: true, prefix: Prefix::NoPrefix, auto_first: None, layout: Layout::Same2, routes: RouteCfg::DefaultForeign, any_ip: false };
                                if valid(&c) {
                                    base.push(c);
                                }
                            }
                        }
                    }
                }
            }
            if base.is_empty() {
                continue;
            }
            let fps: Vec<Option<u128>> = base.par_iter().map(|c| catch_unwind(AssertUnwindSafe(|| execute_opt(c, true, false).state_fp)).ok()).collect();
            let initial = catch_unwind(AssertUnwindSafe(|| {
                let w = World::new(med, ver, Layout::Same2, Sock::Std, joined, true, true);
                w.state_fp()
            }))
            .ok();
            let mut reps: BTreeMap<u128, usize> = BTreeMap::new();
            for (i, fp) in fps.iter().enumerate() {
                if let Some(fp) = fp {
                    if Some(*fp) != initial {
                        reps.entry(*fp).or_insert(i);
                    }
                }
            }
            let mut firsts: Vec<usize> = reps.values().copied().collect();
            firsts.sort();
            let mut cells2 = Vec::with_capacity(firsts.len() * base.len());
            for &fi in &firsts {
                let f = &base[fi];
                let first = First { kind: f.kind, ll: f.ll, dst: f.dst, src: f.src, port: f.port };
                for c in &base {
                    cells2.push(Cell { auto_first: Some(first), ..*c });
                }
            }
            info.push(json!({
                "base": format!("{}/{} sockets=std joined={} primed", med.name(), ver.name(), joined),
                "first_frame_candidates": base.len(),
                "distinct_states_after_first_frame_other_than_initial": firsts.len(),
                "depth2_cells": cells2.len(),
                "representative_first_frames": firsts.iter().take(200).map(|&i| { let f = &base[i]; format!("{} ll={} dst={} src={} port={}", f.kind.name(), f.ll.name(), f.dst.name(), f.src.name(), f.port.name()) }).collect::<Vec<_>>(),
            }));
            agg.run_batch(rep, &cells2);
        }
    }
    json!(info)
}

pub fn run(tier: Tier) -> i32 {
    let mut rep = Report::new("C11", tier);
    rep.assumptions.push("every cell runs on a fresh Interface/SocketSet at one fixed Instant (1.000 s); no timers expire, no fragments, no IP options/extension headers; checksum offload off (stack verifies and computes all checksums)".into());
    rep.assumptions.push("emitted Ethernet/IP frames are classified by an own parser (addr/pkt.rs, wirecheck.rs); for IEEE 802.15.4 the MAC header is parsed by own code and smoltcp::wire is used ONLY to undo IPHC/UDP-NHC compression, the reconstructed IPv6 packet is classified by the own parser".into());
    rep.assumptions.push("delivery to a socket = the `{:?}` image of that TCP/UDP/ICMP/DNS socket differs between just before the frame and just after `poll_ingress_single` (positive controls prove every socket type shows deliveries); raw sockets are not judged".into());
    rep.assumptions.push("lenient readings: see the comment block at the top of src/addr.rs (802.15.4 other station in own PAN, multicast MAC, unspecified/loopback destination under R1, bound UDP socket + broadcast, R3 at IP layer only, loopback/own source not 'non-unicast')".into());
    rep.assumptions.push(format!("interface: packets of one IP version per cell, {} own address(es) in one of the address table layouts (IFACE_MAX_ADDR_COUNT={}), default route via an on-link gateway, PAN id 0xbeef on 802.15.4", if two_addrs() { 2 } else { 1 }, smoltcp::config::IFACE_MAX_ADDR_COUNT));

    let p = plan(tier);
    let cells = enumerate(&p);

    // table dimensions
    rep.cov(
        "table_dimensions",
        json!({
            "medium": Med::ALL.iter().map(|x| x.name()).collect::<Vec<_>>(),
            "ip_version": Ver::ALL.iter().map(|x| x.name()).collect::<Vec<_>>(),
            "packet_kind": Kind::ALL.iter().map(|x| x.name()).collect::<Vec<_>>(),
            "link_dst_ethernet": ll_alphabet(Med::Eth).iter().map(|x| x.name()).collect::<Vec<_>>(),
            "link_dst_ieee802154": ll_alphabet(Med::Lowpan).iter().map(|x| x.name()).collect::<Vec<_>>(),
            "ip_dst_class": Dst::ALL.iter().map(|x| x.name()).collect::<Vec<_>>(),
            "ip_src_class": Src::ALL.iter().map(|x| x.name()).collect::<Vec<_>>(),
            "port_relation": p.ports.iter().map(|x| x.name()).collect::<Vec<_>>(),
            "sockets_in_every_non_empty_configuration": ["tcp listener :80", "udp bound :7000", "udp never bound", "udp bound :7002 then closed", "icmp Ident(0x1234)", "icmp Udp(:7000)"],
            "socket_configuration_depth1": p.socks.iter().map(|x| x.name()).collect::<Vec<_>>(),
            "group_g_joined_depth1": p.joined,
            "group_g_not_joined_only_for_dst_group_g": p.unjoined_only_for_group_g,
            "tcp_dst_port_0_only_with_syn": p.tcp_port0_only_syn,
            "neighbor_cache": ["primed(peer+gateway)", "cold (ethernet/802.15.4 only)"],
            "socket_configuration_on_cold_base": p.cold_socks.iter().map(|x| x.name()).collect::<Vec<_>>(),
            "depth2_on_ieee802154_only_teach/syn-to-own/handshake": p.lowpan_d2_reduced,
            "depth2_first_frames": p.prefixes.iter().map(|x| x.name()).collect::<Vec<_>>(),
            "socket_configuration_depth2": p.d2_socks.iter().map(|x| x.name()).collect::<Vec<_>>(),
            "group_g_joined_depth2": p.d2_joined,
            "group_g_not_joined_at_depth2_only_for_dst_group_g": true,
            "generic_depth2_ports": ["matching", "not-matching", "dst-port-0"],
            "generic_depth2": p.auto_d2,
            "routing_table": RouteCfg::ALL.iter().map(|x| x.name()).collect::<Vec<_>>(),
            "any_ip": [false, true],
            "non_default_routing_or_any_ip": {
                "sockets": p.x_socks.iter().map(|x| x.name()).collect::<Vec<_>>(), "ieee802154": p.x_lowpan, "neighbors_primed": [true], "depth": 1,
                "only_unicast_destination_classes,_sources_onlink/offlink/own/unspecified,_ports_matching/not-matching": p.r_unicast_dst_only,
                "note": "AnyIP off: every routing table must leave foreign unicast destinations undelivered and unanswered (R1). AnyIP on: foreign unicast destinations are not judged (recorded under observations.any_ip_*)",
            },
            "address_table_layout": Layout::ALL.iter().map(|x| x.name()).collect::<Vec<_>>(),
            "non_default_layouts": {
                "sockets": p.x_socks.iter().map(|x| x.name()).collect::<Vec<_>>(), "neighbors_primed": p.x_primed, "ieee802154": p.x_lowpan,
                "hand_picked_first_frames(sockets=std)": p.x_d2, "group_g_joined": [true],
                "note": "IPv4-only layouts with IPv4 packets; the second subnet's broadcast is a source and a destination class where that subnet is configured",
            },
        }),
    );
    rep.cov("rule", json!("full product of the dimensions above, filtered by `valid()` (6LoWPAN => IPv6; ARP => Ethernet/IPv4, target classes own/own2/other/offlink/bcast/unspec; NS => IPv6; DNS response => std+dns sockets; address classes that do not exist for the IP version dropped; port 0 only for UDP/TCP; cold neighbor cache only where a cache exists and not with the DNS socket; first frame 'teach' on the cold base, the other first frames on the primed base). A cell = one frame injected into a fresh interface (after the optional first frame(s)). Thorough tier additionally: generic depth 2 (see generic_depth2). states = distinct (kind, version, dst class, src class, outcome) tuples; transitions = frames injected; validated = cells re-executed on a second fresh interface with byte-identical output frames and socket images (every 16th cell and every violating cell)."));

    let mut agg = Agg::new();
    agg.run_batch(&mut rep, &cells);
    if p.auto_d2 {
        let info = auto_depth2(&mut rep, &mut agg);
        rep.cov("generic_depth2", info);
    }

    for (what, c) in &agg.sample_cells {
        if let Ok(e) = catch_unwind(AssertUnwindSafe(|| execute(c))) {
            let v = judge(c, &e);
            rep.samples.push(json!({
                "what": what, "cell": c.to_json(), "first_frames_in": e.prefix_hex, "frame_in": e.frame_hex,
                "frames_out": e.outs.iter().map(|o| format!("{} [{}]", o.describe(), pkt::hex(&o.raw))).collect::<Vec<_>>(),
                "sockets_changed_by_ingress": v.delivered, "outcome": v.outcome,
                "violations": v.viols.iter().map(|x| x.1.clone()).collect::<Vec<_>>(),
            }));
        }
    }
    for p in agg.panics.iter().take(10) {
        rep.machinery_errors.push(format!("panic while executing a cell: {}", p));
    }

    // positive controls: the observation machinery must have seen every kind of event at least
    // once, otherwise "nothing happened" verdicts would be vacuous
    if p.socks.contains(&Sock::Std) {
        for s in ["tcp", "udp", "icmp-ident", "icmp-udp"] {
            if agg.delivered_per_socket.get(s).copied().unwrap_or(0) == 0 {
                rep.machinery_errors.push(format!("positive control failed: no cell ever delivered to socket '{}'", s));
            }
        }
    }
    if p.socks.contains(&Sock::Dns) && agg.delivered_per_socket.get("dns").copied().unwrap_or(0) == 0 {
        rep.machinery_errors.push("positive control failed: no cell ever delivered to the DNS socket".into());
    }
    for want in ["tcp-rst", "icmp-error-3-3", "icmp-error-1-4", "echo-reply", "arp-reply", "ndisc-na", "tcp-synack"] {
        if !agg.outcomes.keys().any(|o| o.contains(want)) {
            rep.machinery_errors.push(format!("positive control failed: no cell ever produced '{}'", want));
        }
    }

    // timed part: SLAAC address validity over time (see addr/timed.rs)
    let tt = timed::run(&mut rep, tier);
    // short histories for address-bound TCP listeners (see addr/hist.rs)
    let ht = hist::run(&mut rep, tier);
    // 802.15.4 frames with context-based address compression (see addr/ctx.rs)
    let ct = ctx::run(&mut rep);

    rep.add_count("states", agg.distinct.len() as u64);
    rep.add_count("transitions", agg.frames_in + tt.frames_in + ht.frames_in + ct.runs);
    rep.add_count("evaluations", agg.cells + tt.runs + ht.runs + ct.runs);
    rep.add_count("traces_validated_against_impl", agg.validated + tt.validated + ht.validated + ct.validated);
    rep.add_count("distinct_nontrivial", agg.obs_distinct.len() as u64);
    rep.cov("cells_executed", json!(agg.cells));
    rep.cov("cells_per_medium_version", json!(agg.per_med));
    rep.cov("cells_per_address_table_layout", json!(agg.per_layout));
    rep.cov("cells_per_routing_table_and_any_ip", json!(agg.per_routes));
    rep.cov("cells_per_first_frame", json!(agg.per_depth));
    rep.cov("cells_per_outcome_class", json!({"delivered_to_some_socket": agg.class_counts[0], "some_frame_emitted": agg.class_counts[1], "silent": agg.class_counts[2]}));
    rep.cov("cells_per_outcome", json!(agg.outcomes));
    rep.cov("outcome_by_packet_kind", json!(agg.outcome_by_kind));
    rep.cov("deliveries_per_socket", json!(agg.delivered_per_socket));
    let mut pr = serde_json::Map::new();
    for i in 0..5 {
        pr.insert(RULES[i].into(), json!({"relevant_cells": agg.per_rule_rel[i], "violating_cells": agg.per_rule_viol_cells[i]}));
    }
    rep.cov("per_rule", Value::Object(pr));
    rep.cov("cells_per_signature", json!(agg.sig_cells));
    rep.cov("observations", json!(agg.notes));
    rep.cov("panics", json!(agg.panics.len()));
    rep.and_exhaustive(true);
    rep.finish()
}

// ---------------------------------------------------------------------------------------
// replay
// ---------------------------------------------------------------------------------------

pub fn replay(art: &Value) -> i32 {
    if art["replay"]["type"].as_str() == Some("slaac") {
        return timed::replay(&art["replay"], art["signature"].as_str().unwrap_or(""));
    }
    if art["replay"]["type"].as_str() == Some("history") {
        return hist::replay(&art["replay"], art["signature"].as_str().unwrap_or(""));
    }
    if art["replay"]["type"].as_str() == Some("lowpan-context") {
        return ctx::replay(&art["replay"], art["signature"].as_str().unwrap_or(""));
    }
    let Some(c) = art["replay"].get("cell").and_then(Cell::from_json) else {
        eprintln!("MACHINERY ERROR: artefact has no replayable cell");
        return 2;
    };
    println!("cell: {}", c.describe());
    if !valid(&c) {
        eprintln!("MACHINERY ERROR: cell is not part of the table in this build");
        return 2;
    }
    let e = match catch_unwind(AssertUnwindSafe(|| execute_strict(&c))) {
        Ok(e) => e,
        Err(p) => {
            println!("panic: {} at {}", panic_msg(p), last_panic_loc());
            return 2;
        }
    };
    for l in &e.setup_log {
        println!("set-up: {}", l);
    }
    for l in &e.errors {
        println!("MACHINERY ERROR: {}", l);
    }
    if let Some(p) = &e.prefix_hex {
        println!("first frame in : {}", p);
        for o in &e.prefix_outs {
            println!("   frame out   : {} [{}]", o.describe(), pkt::hex(&o.raw));
        }
    }
    println!("frame in       : {}", e.frame_hex);
    for o in &e.outs {
        println!("   frame out   : {} [{}]", o.describe(), pkt::hex(&o.raw));
    }
    if e.outs.is_empty() {
        println!("   (no frame out)");
    }
    let ds = |t: &Option<TcpSnap>| t.as_ref().map(|t| t.describe()).unwrap_or_else(|| "(no tcp socket)".into());
    println!("tcp socket before        : {}", ds(&e.pre_tcp));
    println!("tcp socket after ingress : {}", ds(&e.mid_tcp));
    println!("tcp socket after egress  : {}", ds(&e.post_tcp));
    for d in image_diff(&e) {
        println!("socket image changed: {}", d);
    }
    let v = judge(&c, &e);
    println!("outcome: {}", v.outcome);
    let want = art["signature"].as_str().unwrap_or("");
    let mut hit = false;
    for (_, sig, what) in &v.viols {
        println!("violation: {} :: {}", sig, what);
        if sig == want || want.is_empty() {
            hit = true;
        }
    }
    if !e.errors.is_empty() {
        return 2;
    }
    if hit {
        1
    } else {
        println!("no violation with signature '{}' on replay", want);
        0
    }
}
