//! C11 — "Only traffic addressed to the interface is delivered; no replies to non-unicast".
//!
//! Bounded-exhaustive enumeration (E2) of a finite table; every cell is executed on a FRESH real
//! smoltcp `Interface` + `SocketSet` (see `addr/world.rs`), the frames the stack emits are
//! classified by an independent parser (`addr/pkt.rs`), and the rules of the statement are
//! evaluated on every cell:
//!
//!  R1  traffic not addressed to the interface (Ethernet frame for another station, 802.15.4
//!      frame for another PAN, IP packet / ARP / NS for a foreign unicast address or a multicast
//!      group that is not joined) is delivered to no TCP/UDP/ICMP/DNS socket and is not answered:
//!      no frame at all leaves the interface because of it.
//!  R2  a TCP/UDP/ICMP/DNS socket only receives what matches its bound endpoint.
//!  R3  destination broadcast/multicast, or source unspecified/broadcast/multicast  =>  no TCP RST
//!      and no ICMP error comes out (echo replies, ARP replies, NAs, SYN-ACKs are not errors).
//!  R4  ICMP error in or TCP RST in  =>  no ICMP error and no RST out.
//!  R5  TCP segment to a broadcast, multicast or loopback destination (everything in this harness
//!      arrives from the network)  =>  the `{:?}` image of every TCP socket is unchanged.
//!
//! Lenient readings (the statement leaves room; the oracle demands no more than is written):
//!  * "802.15.4 frames for another PAN" is the only 802.15.4 link-layer clause of the statement:
//!    a frame for another station's extended address inside our PAN is NOT judged by R1 (radios
//!    normally filter it in hardware); such cells are executed and counted under
//!    `observations.lowpan_other_station_*` only.
//!  * Ethernet multicast destination MACs are not "another station" (a multicast frame is for
//!    every listener); only a foreign unicast MAC triggers R1.
//!  * unspecified and loopback IP destinations are neither "foreign unicast" nor "ours": R1 does
//!    not judge them (R5 judges loopback for TCP as the statement says).
//!  * R2 for an address-bound UDP socket: a datagram to a broadcast/multicast destination that
//!    the interface accepted counts as matching (it is addressed to every address of the
//!    interface; `udp::Socket::accepts` does this on purpose). TCP and ICMP(Udp endpoint)
//!    address-bound sockets are judged strictly (destination == bound address), which is also
//!    what the stack implements.
//!  * R2 for the DNS socket: "bound endpoint" = the local port of the pending query.
//!  * R3 "sent to a broadcast or multicast destination" is read at the IP layer only: a unicast
//!    IP packet inside a broadcast/multicast link-layer frame is not judged (counted under
//!    `observations.error_or_rst_for_ll_bcast_ip_unicast`).
//!  * R3 non-unicast source = {unspecified, broadcast, multicast} exactly as listed; loopback
//!    and the interface's own address as source are executed but not judged by R3.
//!  * raw sockets are outside "TCP, UDP, ICMP or DNS socket": what they receive is never judged.
//!  * The property quantifies over valid packets of supported protocols: unknown IP protocols,
//!    extension headers, fragments are not part of this table.

mod model;
mod pkt;
mod world;

use crate::core::*;
use crate::wirecheck::Addr;
use model::*;
use pkt::{Out, OutKind};
use rayon::prelude::*;
use serde_json::{json, Value};
use smoltcp::wire::Ieee802154Address;
use std::collections::{BTreeMap, BTreeSet};
use std::panic::{catch_unwind, AssertUnwindSafe};
use world::{TcpSnap, World};

const R1: usize = 0;
const R2: usize = 1;
const R3: usize = 2;
const R4: usize = 3;
const R5: usize = 4;
const RULES: [&str; 5] = ["R1", "R2", "R3", "R4", "R5"];

// ---------------------------------------------------------------------------------------
// table
// ---------------------------------------------------------------------------------------

fn two_addrs() -> bool {
    smoltcp::config::IFACE_MAX_ADDR_COUNT >= 2
}

fn ll_alphabet(m: Med) -> &'static [LlDst] {
    match m {
        Med::Ip => &[LlDst::NoLl],
        Med::Eth => &[LlDst::Own, LlDst::OtherUni, LlDst::Bcast, LlDst::Mcast],
        Med::Lowpan => &[
            LlDst::PanOwnExtOwn,
            LlDst::PanOwnExtOther,
            LlDst::PanOwnShortBcast,
            LlDst::PanBcastExtOwn,
            LlDst::PanBcastShortBcast,
            LlDst::PanOtherExtOwn,
            LlDst::PanOtherShortBcast,
        ],
    }
}

/// Is this combination meaningful? (Everything that is not is skipped and NOT counted.)
fn valid(c: &Cell) -> bool {
    if c.med == Med::Lowpan && c.ver != Ver::V6 {
        return false; // 6LoWPAN carries IPv6 only
    }
    if !ll_alphabet(c.med).contains(&c.ll) {
        return false;
    }
    if dst_addr(c.ver, c.dst).is_none() || src_addr(c.ver, c.src).is_none() {
        return false;
    }
    if c.dst == Dst::Own2 && !two_addrs() {
        return false;
    }
    match c.kind {
        Kind::Arp => {
            // ARP: the "IP destination" is the target protocol address; there is no port
            if c.med != Med::Eth || c.ver != Ver::V4 || !c.port_match {
                return false;
            }
            if !matches!(c.dst, Dst::Own | Dst::Own2 | Dst::OtherOnLink | Dst::OffLink | Dst::SubnetBcast | Dst::Unspec) {
                return false;
            }
        }
        Kind::Ns => {
            // port relation = "target is our address" / "target is another node's address"
            if c.ver != Ver::V6 {
                return false;
            }
        }
        Kind::DnsResp => {
            // needs the pending query's port, learnt from the query on the wire
            if c.sock != Sock::Dns || !(c.primed || c.med == Med::Ip) {
                return false;
            }
        }
        _ => {}
    }
    if c.med == Med::Ip && !c.primed {
        return false; // no neighbor cache on Medium::Ip: one base only
    }
    match c.prefix {
        Prefix::NoPrefix => {}
        Prefix::Teach => {
            if c.primed || c.med == Med::Ip {
                return false;
            }
        }
        _ => {
            if !c.primed {
                return false;
            }
        }
    }
    true
}

struct Plan {
    socks: Vec<Sock>,
    joined: Vec<bool>,
    primed: Vec<bool>,
    prefixes: Vec<Prefix>,
    d2_socks: Vec<Sock>,
    d2_joined: Vec<bool>,
}

fn plan(tier: Tier) -> Plan {
    match tier {
        Tier::Quick => Plan {
            socks: Sock::ALL.to_vec(),
            joined: vec![false, true],
            primed: vec![true, false],
            prefixes: vec![Prefix::Teach, Prefix::SynOwn, Prefix::SynBcast, Prefix::UdpOwn],
            d2_socks: vec![Sock::Std],
            d2_joined: vec![true],
        },
        Tier::Thorough => Plan {
            socks: Sock::ALL.to_vec(),
            joined: vec![false, true],
            primed: vec![true, false],
            prefixes: vec![Prefix::Teach, Prefix::SynOwn, Prefix::SynBcast, Prefix::UdpOwn],
            d2_socks: Sock::ALL.to_vec(),
            d2_joined: vec![false, true],
        },
    }
}

fn enumerate(p: &Plan) -> Vec<Cell> {
    let mut v = vec![];
    let mut prefixes = vec![Prefix::NoPrefix];
    prefixes.extend(p.prefixes.iter().copied());
    for &prefix in &prefixes {
        let (socks, joineds) = if prefix == Prefix::NoPrefix { (&p.socks, &p.joined) } else { (&p.d2_socks, &p.d2_joined) };
        for &med in &[Med::Ip, Med::Eth, Med::Lowpan] {
            for &ver in Ver::ALL {
                for &primed in &p.primed {
                    for &sock in socks {
                        for &joined in joineds {
                            for &kind in Kind::ALL {
                                for &ll in ll_alphabet(med) {
                                    for &dst in Dst::ALL {
                                        for &src in Src::ALL {
                                            for &port_match in &[true, false] {
                                                let c = Cell { med, ver, kind, ll, dst, src, port_match, sock, joined, primed, prefix };
                                                if valid(&c) {
                                                    v.push(c);
                                                }
                                            }
                                        }
                                    }
                                }
                            }
                        }
                    }
                }
            }
        }
    }
    v
}

// ---------------------------------------------------------------------------------------
// stimulus
// ---------------------------------------------------------------------------------------

fn ll_wrap(c: &Cell, src: &Addr, dst: &Addr, proto: u8, hop: u8, l4: &[u8]) -> Vec<u8> {
    match c.med {
        Med::Ip => pkt::ip_packet(src, dst, proto, hop, l4),
        Med::Eth => {
            let mac = match c.ll {
                LlDst::Own => MY_MAC,
                LlDst::OtherUni => OTHER_MAC,
                LlDst::Bcast => [0xff; 6],
                _ => mapped_mac(dst),
            };
            let et = if c.ver == Ver::V4 { 0x0800 } else { 0x86dd };
            pkt::eth(&mac, &PEER_MAC, et, &pkt::ip_packet(src, dst, proto, hop, l4))
        }
        Med::Lowpan => {
            let (pan, a) = match c.ll {
                LlDst::PanOwnExtOwn => (PAN_OWN, Ieee802154Address::Extended(MY_EXT)),
                LlDst::PanOwnExtOther => (PAN_OWN, Ieee802154Address::Extended(OTHER_EXT)),
                LlDst::PanOwnShortBcast => (PAN_OWN, Ieee802154Address::BROADCAST),
                LlDst::PanBcastExtOwn => (PAN_BCAST, Ieee802154Address::Extended(MY_EXT)),
                LlDst::PanBcastShortBcast => (PAN_BCAST, Ieee802154Address::BROADCAST),
                LlDst::PanOtherExtOwn => (PAN_OTHER, Ieee802154Address::Extended(MY_EXT)),
                _ => (PAN_OTHER, Ieee802154Address::BROADCAST),
            };
            world::lowpan_frame(pan, a, Ieee802154Address::Extended(PEER_EXT), src, dst, proto, hop, l4)
        }
    }
}

/// The one frame of the cell. `ack`: acknowledgement number for ACK/data segments (the stack's
/// ISN+1 when a SYN-ACK was seen in the prefix).
fn build_frame(c: &Cell, w: &World, ack: u32) -> Vec<u8> {
    let a = addrs(c.ver);
    let dst = dst_addr(c.ver, c.dst).unwrap();
    let src = src_addr(c.ver, c.src).unwrap();
    let icmp_proto = if c.ver == Ver::V4 { 1 } else { 58 };
    let tcp_port = if c.port_match { TCP_PORT } else { TCP_PORT + 1 };
    let udp_port = if c.port_match { UDP_PORT } else { UDP_PORT + 1 };
    match c.kind {
        Kind::Arp => {
            let (Addr::V4(spa), Addr::V4(tpa)) = (&src, &dst) else { unreachable!() };
            let mac = match c.ll {
                LlDst::Own => MY_MAC,
                LlDst::OtherUni => OTHER_MAC,
                LlDst::Bcast => [0xff; 6],
                _ => [0x01, 0x00, 0x5e, 0, 0, 1],
            };
            pkt::eth(&mac, &PEER_MAC, 0x0806, &pkt::arp_request(&PEER_MAC, spa, tpa))
        }
        Kind::Echo => {
            let ident = if c.port_match { ICMP_IDENT } else { ICMP_IDENT + 1 };
            ll_wrap(c, &src, &dst, icmp_proto, 64, &pkt::echo_request(&src, &dst, ident, 1, b"ping"))
        }
        Kind::IcmpErr => {
            // "port unreachable" about a datagram we supposedly sent from our UDP port to the peer
            let emb_src = if matches!(c.dst, Dst::Own | Dst::Own2) { dst.clone() } else { a.my.clone() };
            let u = pkt::udp(&emb_src, &a.peer, udp_port, PEER_PORT, b"abcd");
            let orig = pkt::ip_packet(&emb_src, &a.peer, 17, 63, &u);
            ll_wrap(c, &src, &dst, icmp_proto, 64, &pkt::port_unreachable(&src, &dst, &orig))
        }
        Kind::Udp => ll_wrap(c, &src, &dst, 17, 64, &pkt::udp(&src, &dst, PEER_PORT, udp_port, b"abcd")),
        Kind::DnsResp => {
            let port = if c.port_match { w.dns_port } else { w.dns_port.wrapping_add(1) };
            ll_wrap(c, &src, &dst, 17, 64, &pkt::udp(&src, &dst, 53, port, &pkt::dns_nxdomain(w.dns_txid)))
        }
        Kind::TcpSyn => ll_wrap(c, &src, &dst, 6, 64, &pkt::tcp(&src, &dst, PEER_PORT, tcp_port, PEER_ISN, 0, pkt::TCP_SYN, 1024, &[])),
        Kind::TcpAck => ll_wrap(c, &src, &dst, 6, 64, &pkt::tcp(&src, &dst, PEER_PORT, tcp_port, PEER_ISN + 1, ack, pkt::TCP_ACK, 1024, &[])),
        Kind::TcpRst => ll_wrap(c, &src, &dst, 6, 64, &pkt::tcp(&src, &dst, PEER_PORT, tcp_port, PEER_ISN + 1, 0, pkt::TCP_RST, 0, &[])),
        Kind::TcpData => ll_wrap(
            c,
            &src,
            &dst,
            6,
            64,
            &pkt::tcp(&src, &dst, PEER_PORT, tcp_port, PEER_ISN + 1, ack, pkt::TCP_ACK | pkt::TCP_PSH, 1024, b"data"),
        ),
        Kind::Ns => {
            let target = if c.port_match { &a.my } else { &a.other };
            let Addr::V6(t) = target else { unreachable!() };
            let sll: &[u8] = if c.med == Med::Lowpan { &PEER_EXT } else { &PEER_MAC };
            ll_wrap(c, &src, &dst, 58, 255, &pkt::neighbor_solicit(&src, &dst, t, Some(sll)))
        }
    }
}

/// First frame of a depth-2 sequence (always from the on-link peer, link-layer destination us).
fn prefix_frame(c: &Cell, w: &World) -> Option<Vec<u8>> {
    let a = addrs(c.ver);
    let base = Cell {
        ll: match c.med {
            Med::Ip => LlDst::NoLl,
            Med::Eth => LlDst::Own,
            Med::Lowpan => LlDst::PanOwnExtOwn,
        },
        src: Src::OnLink,
        port_match: true,
        ..*c
    };
    match c.prefix {
        Prefix::NoPrefix => None,
        Prefix::Teach => Some(w.teach_frame(&a.peer, &PEER_MAC, &PEER_EXT)),
        Prefix::SynOwn => Some(build_frame(&Cell { kind: Kind::TcpSyn, dst: Dst::Own, ..base }, w, 0)),
        Prefix::SynBcast => {
            let dst = if c.ver == Ver::V4 { Dst::SubnetBcast } else { Dst::AllNodes };
            let ll = match c.med {
                Med::Ip => LlDst::NoLl,
                Med::Eth => LlDst::Bcast,
                Med::Lowpan => LlDst::PanOwnShortBcast,
            };
            Some(build_frame(&Cell { kind: Kind::TcpSyn, dst, ll, ..base }, w, 0))
        }
        Prefix::UdpOwn => Some(build_frame(&Cell { kind: Kind::Udp, dst: Dst::Own, ..base }, w, 0)),
    }
}

// ---------------------------------------------------------------------------------------
// execution + oracle
// ---------------------------------------------------------------------------------------

struct Exec {
    prefix_hex: Option<String>,
    prefix_outs: Vec<Out>,
    frame_hex: String,
    pre_images: Vec<(&'static str, String)>,
    post_images: Vec<(&'static str, String)>,
    pre_tcp: Option<TcpSnap>,
    post_tcp: Option<TcpSnap>,
    outs: Vec<Out>,
    setup_log: Vec<String>,
    errors: Vec<String>,
}

fn execute(c: &Cell) -> Exec {
    let mut w = World::new(c.med, c.ver, c.sock, c.joined, c.primed);
    let mut ack = DEFAULT_ACK;
    let mut prefix_hex = None;
    let mut prefix_outs = vec![];
    if let Some(pf) = prefix_frame(c, &w) {
        prefix_hex = Some(pkt::hex(&pf));
        prefix_outs = w.apply(&pf);
        for o in &prefix_outs {
            if o.kind == OutKind::TcpSynAck {
                if let Some((_, _, seq, _, _)) = o.l4 {
                    ack = seq.wrapping_add(1);
                }
            }
        }
        // the first frame must be fully digested before the cell's frame is judged
        let extra = w.poll_collect();
        if !extra.is_empty() {
            w.errors.push("prefix not quiescent".into());
        }
    }
    let frame = build_frame(c, &w, ack);
    let pre_images = w.images();
    let pre_tcp = w.tcp_snap();
    let outs = w.apply(&frame);
    Exec {
        prefix_hex,
        prefix_outs,
        frame_hex: pkt::hex(&frame),
        pre_images,
        post_images: w.images(),
        pre_tcp,
        post_tcp: w.tcp_snap(),
        outs,
        setup_log: std::mem::take(&mut w.setup_log),
        errors: std::mem::take(&mut w.errors),
    }
}

#[derive(Default)]
struct Verdict {
    relevant: [bool; 5],
    viols: Vec<(usize, String, String)>, // (rule, signature, what)
    outcome: String,
    delivered: Vec<&'static str>,
    /// informational observations (lenient readings), name -> 1
    notes: Vec<&'static str>,
}

fn judge(c: &Cell, e: &Exec) -> Verdict {
    let mut v = Verdict::default();
    let dst = dst_addr(c.ver, c.dst).unwrap();
    let src = src_addr(c.ver, c.src).unwrap();
    let a = addrs(c.ver);
    let k = c.kind.name();
    let ver = c.ver.name();
    let d = c.dst.name();

    // ---- observations ----
    for ((n, pre), (_, post)) in e.pre_images.iter().zip(e.post_images.iter()) {
        if pre != post {
            v.delivered.push(*n);
        }
    }
    let mut replies: BTreeSet<String> = BTreeSet::new();
    for o in &e.outs {
        replies.insert(o.kind.name());
    }
    let err_outs: Vec<&Out> = e.outs.iter().filter(|o| o.kind.is_error_or_rst()).collect();
    v.outcome = {
        let mut s = String::new();
        if !v.delivered.is_empty() {
            s.push_str(&format!("delivered[{}]", v.delivered.join(",")));
        }
        if !replies.is_empty() {
            if !s.is_empty() {
                s.push('+');
            }
            s.push_str(&format!("replied[{}]", replies.iter().cloned().collect::<Vec<_>>().join(",")));
        }
        if s.is_empty() {
            s.push_str("silent");
        }
        s
    };

    // ---- R1 ----
    let ll_trigger = match c.ll {
        LlDst::OtherUni => Some("other-station"),
        LlDst::PanOtherExtOwn | LlDst::PanOtherShortBcast => Some("other-pan"),
        _ => None,
    };
    let ip_foreign = match c.kind {
        Kind::Arp => matches!(c.dst, Dst::OtherOnLink | Dst::OffLink),
        _ => matches!(c.dst, Dst::OtherOnLink | Dst::OffLink | Dst::GroupU) || (c.dst == Dst::GroupG && !c.joined),
    };
    let trigger = ll_trigger.or(if ip_foreign { Some("foreign-ip") } else { None });
    if let Some(t) = trigger {
        v.relevant[R1] = true;
        for s in &v.delivered {
            v.viols.push((R1, format!("C11/R1/{}/{}/{}/{}-delivered-{}", k, ver, d, t, s), format!("not addressed to the interface ({}) but socket '{}' changed", t, s)));
        }
        for r in &replies {
            v.viols.push((R1, format!("C11/R1/{}/{}/{}/{}-answered-{}", k, ver, d, t, r), format!("not addressed to the interface ({}) but a frame ({}) was emitted", t, r)));
        }
    }
    if c.ll == LlDst::PanOwnExtOther {
        if !v.delivered.is_empty() {
            v.notes.push("lowpan_other_station_delivered");
        } else if !replies.is_empty() {
            v.notes.push("lowpan_other_station_answered");
        } else {
            v.notes.push("lowpan_other_station_silent");
        }
    }

    // ---- R2 ----
    if c.sock != Sock::NoSock {
        v.relevant[R2] = true;
    }
    let bound = c.sock == Sock::Bound;
    for s in &v.delivered {
        let mismatch: Option<&str> = match *s {
            "tcp" => {
                let dport = if c.port_match { TCP_PORT } else { TCP_PORT + 1 };
                match &e.pre_tcp {
                    _ if !c.kind.is_tcp() => Some("protocol"),
                    None => Some("protocol"),
                    Some(t) => {
                        if let (Some(l), Some(r)) = (&t.local, &t.remote) {
                            if l.1 != dport || r.1 != PEER_PORT {
                                Some("port")
                            } else if l.0 != dst || r.0 != src {
                                Some("addr")
                            } else {
                                None
                            }
                        } else if t.state == "Listen" {
                            if t.listen.1 != dport {
                                Some("port")
                            } else if t.listen.0.as_ref().is_some_and(|x| *x != dst) {
                                Some("addr")
                            } else {
                                None
                            }
                        } else {
                            Some("closed-socket")
                        }
                    }
                }
            }
            "udp" => {
                if !matches!(c.kind, Kind::Udp) {
                    // (a DNS response goes to the query's ephemeral port, never UDP_PORT)
                    Some("protocol")
                } else if !c.port_match {
                    Some("port")
                } else if bound && dst != a.my && !c.dst.is_bcast_mcast() {
                    Some("addr")
                } else {
                    None
                }
            }
            "icmp-ident" => {
                if c.kind != Kind::Echo {
                    Some("protocol")
                } else if !c.port_match {
                    Some("ident")
                } else {
                    None
                }
            }
            "icmp-udp" => {
                if c.kind != Kind::IcmpErr {
                    Some("protocol")
                } else if !c.port_match {
                    Some("port")
                } else if bound && dst != a.my {
                    Some("addr")
                } else {
                    None
                }
            }
            "dns" => {
                if c.kind != Kind::DnsResp {
                    Some("protocol")
                } else if !c.port_match {
                    Some("port")
                } else {
                    None
                }
            }
            _ => Some("unknown-socket"),
        };
        if let Some(m) = mismatch {
            v.viols.push((R2, format!("C11/R2/{}/{}/{}/delivered-{}-{}-mismatch", k, ver, d, s, m), format!("socket '{}' received a packet that does not match its endpoint ({})", s, m)));
        }
    }

    // ---- R3 ----
    let dst_trig = c.dst.is_bcast_mcast();
    let src_trig = c.src.is_non_unicast();
    if c.kind != Kind::Arp && (dst_trig || src_trig) {
        v.relevant[R3] = true;
        for o in &err_outs {
            let sig = if dst_trig {
                format!("C11/R3/{}/{}/{}/{}-sent", k, ver, d, o.kind.name())
            } else {
                format!("C11/R3/{}/{}/{}/src-{}/{}-sent", k, ver, d, c.src.name(), o.kind.name())
            };
            v.viols.push((R3, sig, format!("{} emitted in answer to a packet with destination class {} / source class {}: {}", o.kind.name(), d, c.src.name(), o.describe())));
        }
    } else if !err_outs.is_empty() && matches!(c.ll, LlDst::Bcast | LlDst::Mcast | LlDst::PanOwnShortBcast | LlDst::PanBcastShortBcast) {
        v.notes.push("error_or_rst_for_ll_bcast_ip_unicast");
    }

    // ---- R4 ----
    if matches!(c.kind, Kind::IcmpErr | Kind::TcpRst) {
        v.relevant[R4] = true;
        for o in &err_outs {
            v.viols.push((R4, format!("C11/R4/{}/{}/{}/{}-sent", k, ver, d, o.kind.name()), format!("{} emitted in answer to an {}: {}", o.kind.name(), k, o.describe())));
        }
    }

    // ---- R5 ----
    if c.kind.is_tcp() && (c.dst.is_bcast_mcast() || c.dst == Dst::Loopback) && c.sock != Sock::NoSock {
        v.relevant[R5] = true;
        if v.delivered.contains(&"tcp") {
            let (o, n) = (e.pre_tcp.as_ref().map(|t| t.state.clone()).unwrap_or_default(), e.post_tcp.as_ref().map(|t| t.state.clone()).unwrap_or_default());
            let what = if o != n { format!("tcp-socket-{}-to-{}", o, n) } else { format!("tcp-socket-image-changed-in-{}", o) };
            v.viols.push((R5, format!("C11/R5/{}/{}/{}/{}", k, ver, d, what), format!("TCP segment to {} ({}) changed the TCP socket: {}", d, dst, what)));
        }
    }
    v
}

fn image_diff(e: &Exec) -> Vec<Value> {
    let mut v = vec![];
    for ((n, pre), (_, post)) in e.pre_images.iter().zip(e.post_images.iter()) {
        if pre != post {
            v.push(json!({"socket": n, "before": pre, "after": post}));
        }
    }
    v
}

fn detail(c: &Cell, e: &Exec, what: &str) -> String {
    let mut s = format!("{} | cell: {}", what, c.describe());
    if let Some(p) = &e.prefix_hex {
        s.push_str(&format!("\nfirst frame: {}\n  -> {:?}", p, e.prefix_outs.iter().map(|o| o.describe()).collect::<Vec<_>>()));
    }
    s.push_str(&format!("\nframe in: {}", e.frame_hex));
    for o in &e.outs {
        s.push_str(&format!("\nframe out: {} [{}]", o.describe(), pkt::hex(&o.raw)));
    }
    if let (Some(a), Some(b)) = (&e.pre_tcp, &e.post_tcp) {
        if a != b {
            s.push_str(&format!("\ntcp socket: {:?} -> {:?}", a, b));
        }
    }
    s
}

struct CellRes {
    verdict: Verdict,
    /// full detail text per violation (same order as verdict.viols)
    details: Vec<String>,
    errors: Vec<String>,
    panic: Option<String>,
    frames_in: u32,
    validated: bool,
    obs_fp: u128,
}

fn obs_fingerprint(e: &Exec) -> u128 {
    let outs: Vec<String> = e.outs.iter().map(|o| pkt::hex(&o.raw)).collect();
    fp128(&(outs, &e.post_images.iter().map(|x| x.1.clone()).collect::<Vec<_>>(), &e.frame_hex))
}

fn run_cell(idx: usize, c: &Cell) -> CellRes {
    let r = catch_unwind(AssertUnwindSafe(|| execute(c)));
    match r {
        Err(p) => CellRes {
            verdict: Verdict::default(),
            details: vec![],
            errors: vec![],
            panic: Some(format!("{} at {} | cell: {}", panic_msg(p), last_panic_loc(), c.describe())),
            frames_in: 0,
            validated: false,
            obs_fp: 0,
        },
        Ok(e) => {
            let verdict = judge(c, &e);
            let details = verdict.viols.iter().map(|(_, _, what)| detail(c, &e, what)).collect();
            let mut errors = e.errors.clone();
            let fp = obs_fingerprint(&e);
            // determinism / replayability proof on every 16th cell and on every violating cell
            let mut validated = false;
            if idx % 16 == 0 || !verdict.viols.is_empty() {
                match catch_unwind(AssertUnwindSafe(|| execute(c))) {
                    Ok(e2) if obs_fingerprint(&e2) == fp => validated = true,
                    _ => errors.push(format!("NONDETERMINISM: re-execution differs | cell: {}", c.describe())),
                }
            }
            CellRes { verdict, details, errors, panic: None, frames_in: 1 + e.prefix_hex.is_some() as u32, validated, obs_fp: fp }
        }
    }
}

// ---------------------------------------------------------------------------------------
// run
// ---------------------------------------------------------------------------------------

pub fn run(tier: Tier) -> i32 {
    let mut rep = Report::new("C11", tier);
    rep.assumptions.push("every cell runs on a fresh Interface/SocketSet at one fixed Instant (1.000 s); no timers expire, no fragments, no IP options/extension headers; checksum offload off (stack verifies and computes all checksums)".into());
    rep.assumptions.push("emitted Ethernet/IP frames are classified by an own parser (addr/pkt.rs, wirecheck.rs); for IEEE 802.15.4 the MAC header is parsed by own code and smoltcp::wire is used ONLY to undo IPHC/UDP-NHC compression, the reconstructed IPv6 packet is classified by the own parser".into());
    rep.assumptions.push("delivery to a socket = the `{:?}` image of that TCP/UDP/ICMP/DNS socket differs after the frame (positive controls below prove every socket type shows deliveries); raw sockets are not judged".into());
    rep.assumptions.push("lenient readings: see the comment block at the top of src/addr.rs (802.15.4 other station in own PAN, multicast MAC, unspecified/loopback destination under R1, bound UDP socket + broadcast, R3 at IP layer only, loopback/own source not 'non-unicast')".into());
    rep.assumptions.push(format!("interface: one IP version per cell with {} own address(es) (IFACE_MAX_ADDR_COUNT={}), default route via an on-link gateway, PAN id 0xbeef on 802.15.4", if two_addrs() { 2 } else { 1 }, smoltcp::config::IFACE_MAX_ADDR_COUNT));

    let p = plan(tier);
    let cells = enumerate(&p);

    // table dimensions
    rep.cov(
        "table_dimensions",
        json!({
            "medium": Med::ALL.iter().map(|x| x.name()).collect::<Vec<_>>(),
            "ip_version": Ver::ALL.iter().map(|x| x.name()).collect::<Vec<_>>(),
            "packet_kind": Kind::ALL.iter().map(|x| x.name()).collect::<Vec<_>>(),
            "link_dst_ethernet": ll_alphabet(Med::Eth).iter().map(|x| x.name()).collect::<Vec<_>>(),
            "link_dst_ieee802154": ll_alphabet(Med::Lowpan).iter().map(|x| x.name()).collect::<Vec<_>>(),
            "ip_dst_class": Dst::ALL.iter().map(|x| x.name()).collect::<Vec<_>>(),
            "ip_src_class": Src::ALL.iter().map(|x| x.name()).collect::<Vec<_>>(),
            "port_relation": ["matching", "not-matching"],
            "socket_configuration_depth1": p.socks.iter().map(|x| x.name()).collect::<Vec<_>>(),
            "group_g_joined_depth1": p.joined,
            "neighbor_cache": ["primed(peer+gateway)", "cold (ethernet/802.15.4 only)"],
            "depth2_first_frames": p.prefixes.iter().map(|x| x.name()).collect::<Vec<_>>(),
            "socket_configuration_depth2": p.d2_socks.iter().map(|x| x.name()).collect::<Vec<_>>(),
            "group_g_joined_depth2": p.d2_joined,
        }),
    );
    rep.cov("rule", json!("full product of the dimensions above, filtered by `valid()` (6LoWPAN => IPv6; ARP => Ethernet/IPv4, target classes own/own2/other/offlink/bcast/unspec; NS => IPv6; DNS response => std+dns sockets; address classes that do not exist for the IP version dropped; cold neighbor cache only where a cache exists; first frame 'teach' on the cold base, the other first frames on the primed base). A cell = one frame injected into a fresh interface (after the optional first frame). states = distinct (kind, version, dst class, src class, outcome) tuples; transitions = frames injected; validated = cells re-executed on a second fresh interface with byte-identical output frames and socket images."));

    let results: Vec<CellRes> = cells.par_iter().enumerate().map(|(i, c)| run_cell(i, c)).collect();

    // sequential, ordered aggregation (deterministic)
    let mut per_rule_rel = [0u64; 5];
    let mut per_rule_viol_cells = [0u64; 5];
    let mut outcomes: BTreeMap<String, u64> = BTreeMap::new();
    let mut outcome_by_kind: BTreeMap<String, BTreeMap<String, u64>> = BTreeMap::new();
    let mut per_med: BTreeMap<String, u64> = BTreeMap::new();
    let mut per_depth: BTreeMap<String, u64> = BTreeMap::new();
    let mut delivered_per_socket: BTreeMap<String, u64> = BTreeMap::new();
    let mut notes: BTreeMap<String, u64> = BTreeMap::new();
    let mut sig_cells: BTreeMap<String, u64> = BTreeMap::new();
    let mut distinct: BTreeSet<(Kind, Ver, Dst, Src, String)> = BTreeSet::new();
    let mut obs_distinct: BTreeSet<u128> = BTreeSet::new();
    let mut frames_in = 0u64;
    let mut validated = 0u64;
    let mut panics: Vec<String> = vec![];
    let mut class_counts = [0u64; 3]; // delivered / replied / silent
    let mut sample_outcomes: BTreeSet<String> = BTreeSet::new();
    for (c, r) in cells.iter().zip(results.iter()) {
        if let Some(p) = &r.panic {
            panics.push(p.clone());
            continue;
        }
        for e in &r.errors {
            if rep.machinery_errors.len() < 20 {
                rep.machinery_errors.push(format!("{} | cell: {}", e, c.describe()));
            }
        }
        frames_in += r.frames_in as u64;
        validated += r.validated as u64;
        obs_distinct.insert(r.obs_fp);
        let v = &r.verdict;
        *outcomes.entry(v.outcome.clone()).or_insert(0) += 1;
        *outcome_by_kind.entry(c.kind.name().to_string()).or_default().entry(v.outcome.clone()).or_insert(0) += 1;
        *per_med.entry(format!("{}/{}", c.med.name(), c.ver.name())).or_insert(0) += 1;
        *per_depth.entry(format!("prefix={}", c.prefix.name())).or_insert(0) += 1;
        if !v.delivered.is_empty() {
            class_counts[0] += 1;
        }
        if v.outcome.contains("replied[") {
            class_counts[1] += 1;
        }
        if v.outcome == "silent" {
            class_counts[2] += 1;
        }
        for s in &v.delivered {
            *delivered_per_socket.entry(s.to_string()).or_insert(0) += 1;
        }
        for n in &v.notes {
            *notes.entry(n.to_string()).or_insert(0) += 1;
        }
        distinct.insert((c.kind, c.ver, c.dst, c.src, v.outcome.clone()));
        let mut rules_hit = [false; 5];
        for i in 0..5 {
            if v.relevant[i] {
                per_rule_rel[i] += 1;
            }
        }
        for ((rule, sig, _), det) in v.viols.iter().zip(r.details.iter()) {
            rules_hit[*rule] = true;
            *sig_cells.entry(sig.clone()).or_insert(0) += 1;
            rep.violation(sig.clone(), det.clone(), json!({"type": "cell", "cell": c.to_json()}));
        }
        for i in 0..5 {
            if rules_hit[i] {
                per_rule_viol_cells[i] += 1;
            }
        }
        if sample_outcomes.insert(format!("{}/{}", c.kind.name(), v.outcome)) && rep.samples.len() < 12 && c.prefix == Prefix::NoPrefix {
            rep.samples.push(json!({"cell": c.to_json(), "outcome": v.outcome}));
        }
    }
    for p in panics.iter().take(10) {
        rep.machinery_errors.push(format!("panic while executing a cell: {}", p));
    }

    // positive controls: the observation machinery must have seen every kind of event at least
    // once, otherwise "nothing happened" verdicts would be vacuous
    if p.socks.contains(&Sock::Std) {
        for s in ["tcp", "udp", "icmp-ident", "icmp-udp"] {
            if delivered_per_socket.get(s).copied().unwrap_or(0) == 0 {
                rep.machinery_errors.push(format!("positive control failed: no cell ever delivered to socket '{}'", s));
            }
        }
    }
    if p.socks.contains(&Sock::Dns) && delivered_per_socket.get("dns").copied().unwrap_or(0) == 0 {
        rep.machinery_errors.push("positive control failed: no cell ever delivered to the DNS socket".into());
    }
    for want in ["tcp-rst", "icmp-error-3-3", "icmp-error-1-4", "echo-reply", "arp-reply", "ndisc-na", "tcp-synack"] {
        if !outcomes.keys().any(|o| o.contains(want)) {
            rep.machinery_errors.push(format!("positive control failed: no cell ever produced '{}'", want));
        }
    }

    rep.add_count("states", distinct.len() as u64);
    rep.add_count("transitions", frames_in);
    rep.add_count("evaluations", cells.len() as u64);
    rep.add_count("traces_validated_against_impl", validated);
    rep.add_count("distinct_nontrivial", obs_distinct.len() as u64);
    rep.cov("cells_executed", json!(cells.len()));
    rep.cov("cells_per_medium_version", json!(per_med));
    rep.cov("cells_per_first_frame", json!(per_depth));
    rep.cov("cells_per_outcome_class", json!({"delivered_to_some_socket": class_counts[0], "some_frame_emitted": class_counts[1], "silent": class_counts[2]}));
    rep.cov("cells_per_outcome", json!(outcomes));
    rep.cov("outcome_by_packet_kind", json!(outcome_by_kind));
    rep.cov("deliveries_per_socket", json!(delivered_per_socket));
    let mut pr = serde_json::Map::new();
    for i in 0..5 {
        pr.insert(RULES[i].into(), json!({"relevant_cells": per_rule_rel[i], "violating_cells": per_rule_viol_cells[i]}));
    }
    rep.cov("per_rule", Value::Object(pr));
    rep.cov("cells_per_signature", json!(sig_cells));
    rep.cov("observations", json!(notes));
    rep.cov("panics", json!(panics.len()));
    rep.and_exhaustive(true);
    rep.finish()
}

// ---------------------------------------------------------------------------------------
// replay
// ---------------------------------------------------------------------------------------

pub fn replay(art: &Value) -> i32 {
    let Some(c) = art["replay"].get("cell").and_then(Cell::from_json) else {
        eprintln!("MACHINERY ERROR: artefact has no replayable cell");
        return 2;
    };
    println!("cell: {}", c.describe());
    if !valid(&c) {
        eprintln!("MACHINERY ERROR: cell is not part of the table in this build");
        return 2;
    }
    let e = match catch_unwind(AssertUnwindSafe(|| execute(&c))) {
        Ok(e) => e,
        Err(p) => {
            println!("panic: {} at {}", panic_msg(p), last_panic_loc());
            return 2;
        }
    };
    for l in &e.setup_log {
        println!("set-up: {}", l);
    }
    for l in &e.errors {
        println!("MACHINERY ERROR: {}", l);
    }
    if let Some(p) = &e.prefix_hex {
        println!("first frame in : {}", p);
        for o in &e.prefix_outs {
            println!("   frame out   : {} [{}]", o.describe(), pkt::hex(&o.raw));
        }
    }
    println!("frame in       : {}", e.frame_hex);
    for o in &e.outs {
        println!("   frame out   : {} [{}]", o.describe(), pkt::hex(&o.raw));
    }
    if e.outs.is_empty() {
        println!("   (no frame out)");
    }
    println!("tcp socket before: {:?}", e.pre_tcp);
    println!("tcp socket after : {:?}", e.post_tcp);
    for d in image_diff(&e) {
        println!("socket image changed: {}", d);
    }
    let v = judge(&c, &e);
    println!("outcome: {}", v.outcome);
    let want = art["signature"].as_str().unwrap_or("");
    let mut hit = false;
    for (_, sig, what) in &v.viols {
        println!("violation: {} :: {}", sig, what);
        if sig == want || want.is_empty() {
            hit = true;
        }
    }
    if !e.errors.is_empty() {
        return 2;
    }
    if hit {
        1
    } else {
        println!("no violation with signature '{}' on replay", want);
        0
    }
}
