//! stub — not built yet
use crate::core::*;
pub fn run(_tier: Tier) -> i32 {
    eprintln!("harness not built yet");
    2
}
pub fn replay(_art: &serde_json::Value) -> i32 {
    2
}
