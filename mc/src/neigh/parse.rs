//! Independent, minimal parser for the frames smoltcp hands to the device (C16 oracle input).
//! Nothing here uses `smoltcp::wire`; offsets are from the RFCs / IEEE 802.15.4-2003:
//! Ethernet II (14-byte header), ARP (RFC 826), IPv4 (RFC 791), IPv6 (RFC 8200), ICMPv6
//! NS/NA (RFC 4861), UDP (RFC 768), IEEE 802.15.4 MAC addressing fields, 6LoWPAN IPHC +
//! UDP NHC (RFC 6282).

#[derive(Clone, Debug, PartialEq, Eq, PartialOrd, Ord, Hash)]
pub enum Ip {
    V4([u8; 4]),
    V6([u8; 16]),
}

impl Ip {
    pub fn bytes(&self) -> &[u8] {
        match self {
            Ip::V4(b) => b,
            Ip::V6(b) => b,
        }
    }
    pub fn is_multicast(&self) -> bool {
        match self {
            Ip::V4(b) => b[0] >= 224 && b[0] <= 239,
            Ip::V6(b) => b[0] == 0xff,
        }
    }
    pub fn is_unspecified(&self) -> bool {
        self.bytes().iter().all(|&x| x == 0)
    }
    pub fn is_limited_broadcast(&self) -> bool {
        matches!(self, Ip::V4([255, 255, 255, 255]))
    }
    pub fn show(&self) -> String {
        match self {
            Ip::V4(b) => format!("{}.{}.{}.{}", b[0], b[1], b[2], b[3]),
            Ip::V6(b) => {
                let mut s = String::new();
                for i in 0..8 {
                    if i > 0 {
                        s.push(':');
                    }
                    s.push_str(&format!("{:x}", u16::from_be_bytes([b[2 * i], b[2 * i + 1]])));
                }
                s
            }
        }
    }
}

/// prefix match, independent of smoltcp's Cidr
pub fn prefix_contains(net: &Ip, plen: u8, a: &Ip) -> bool {
    let (n, x) = match (net, a) {
        (Ip::V4(n), Ip::V4(x)) => (&n[..], &x[..]),
        (Ip::V6(n), Ip::V6(x)) => (&n[..], &x[..]),
        _ => return false,
    };
    let full = (plen / 8) as usize;
    if n[..full] != x[..full] {
        return false;
    }
    let rem = plen % 8;
    if rem == 0 {
        return true;
    }
    let mask = 0xffu8 << (8 - rem);
    (n[full] & mask) == (x[full] & mask)
}

#[derive(Clone, Debug, PartialEq)]
pub enum L4 {
    Udp { sport: u16, dport: u16 },
    /// ICMPv4 / ICMPv6 with its type; for NS/NA the target address
    Icmp { ty: u8, target: Option<Ip> },
    /// IPv4 fragment with non-zero offset / 6LoWPAN FRAGN: no transport header
    Frag,
    Other(u8),
}

#[derive(Clone, Debug, PartialEq)]
pub enum Body {
    /// ARP: operation, sender hw, sender proto, target hw, target proto
    Arp { op: u16, sha: Vec<u8>, spa: Ip, tha: Vec<u8>, tpa: Ip },
    Ip { src: Ip, dst: Ip, hop: u8, l4: L4 },
    /// 6LoWPAN subsequent fragment (RFC 4944 §5.3): datagram tag only, no IP header
    LowpanFragN { tag: u16 },
    Other(String),
}

#[derive(Clone, Debug, PartialEq)]
pub struct Parsed {
    /// destination hardware address as written in the link-layer header (canonical byte
    /// order: for 802.15.4 the on-air little-endian field is reversed back)
    pub dst_hw: Vec<u8>,
    pub src_hw: Vec<u8>,
    pub body: Body,
    /// 6LoWPAN first fragment: datagram tag
    pub frag1_tag: Option<u16>,
}

fn be16(b: &[u8], o: usize) -> Option<u16> {
    Some(u16::from_be_bytes([*b.get(o)?, *b.get(o + 1)?]))
}

fn parse_l4_v4(proto: u8, p: &[u8]) -> L4 {
    match proto {
        17 if p.len() >= 8 => L4::Udp { sport: be16(p, 0).unwrap(), dport: be16(p, 2).unwrap() },
        1 if !p.is_empty() => L4::Icmp { ty: p[0], target: None },
        x => L4::Other(x),
    }
}

fn parse_icmp6(p: &[u8]) -> L4 {
    if p.is_empty() {
        return L4::Other(58);
    }
    let ty = p[0];
    let target = if (ty == 135 || ty == 136) && p.len() >= 24 {
        let mut t = [0u8; 16];
        t.copy_from_slice(&p[8..24]);
        Some(Ip::V6(t))
    } else {
        None
    };
    L4::Icmp { ty, target }
}

/// walks hop-by-hop / routing / destination-options extension headers
fn parse_l4_v6(mut nh: u8, mut p: &[u8]) -> L4 {
    loop {
        match nh {
            0 | 43 | 60 => {
                if p.len() < 8 {
                    return L4::Other(nh);
                }
                let next = p[0];
                let len = (p[1] as usize + 1) * 8;
                if p.len() < len {
                    return L4::Other(nh);
                }
                nh = next;
                p = &p[len..];
            }
            17 if p.len() >= 8 => return L4::Udp { sport: be16(p, 0).unwrap(), dport: be16(p, 2).unwrap() },
            58 => return parse_icmp6(p),
            x => return L4::Other(x),
        }
    }
}

pub fn parse_ipv4(p: &[u8]) -> Body {
    if p.len() < 20 || p[0] >> 4 != 4 {
        return Body::Other("bad ipv4 header".into());
    }
    let ihl = ((p[0] & 0xf) as usize) * 4;
    let total = be16(p, 2).unwrap() as usize;
    if ihl < 20 || p.len() < ihl || total < ihl || p.len() < total {
        return Body::Other("bad ipv4 lengths".into());
    }
    let mut s = [0u8; 4];
    let mut d = [0u8; 4];
    s.copy_from_slice(&p[12..16]);
    d.copy_from_slice(&p[16..20]);
    let frag_off = be16(p, 6).unwrap() & 0x1fff;
    let l4 = if frag_off != 0 { L4::Frag } else { parse_l4_v4(p[9], &p[ihl..total]) };
    Body::Ip { src: Ip::V4(s), dst: Ip::V4(d), hop: p[8], l4 }
}

pub fn parse_ipv6(p: &[u8]) -> Body {
    if p.len() < 40 || p[0] >> 4 != 6 {
        return Body::Other("bad ipv6 header".into());
    }
    let plen = be16(p, 4).unwrap() as usize;
    if p.len() < 40 + plen {
        return Body::Other("bad ipv6 length".into());
    }
    let mut s = [0u8; 16];
    let mut d = [0u8; 16];
    s.copy_from_slice(&p[8..24]);
    d.copy_from_slice(&p[24..40]);
    Body::Ip { src: Ip::V6(s), dst: Ip::V6(d), hop: p[7], l4: parse_l4_v6(p[6], &p[40..40 + plen]) }
}

pub fn parse_ethernet(f: &[u8]) -> Result<Parsed, String> {
    if f.len() < 14 {
        return Err("ethernet frame shorter than 14 bytes".into());
    }
    let dst_hw = f[0..6].to_vec();
    let src_hw = f[6..12].to_vec();
    let ety = be16(f, 12).unwrap();
    let p = &f[14..];
    let body = match ety {
        0x0806 => {
            // htype(2) ptype(2) hlen plen op(2) sha(6) spa(4) tha(6) tpa(4)
            if p.len() < 28 || be16(p, 0) != Some(1) || be16(p, 2) != Some(0x0800) || p[4] != 6 || p[5] != 4 {
                Body::Other("arp not ethernet/ipv4".into())
            } else {
                let ip4 = |o: usize| Ip::V4([p[o], p[o + 1], p[o + 2], p[o + 3]]);
                Body::Arp { op: be16(p, 6).unwrap(), sha: p[8..14].to_vec(), spa: ip4(14), tha: p[18..24].to_vec(), tpa: ip4(24) }
            }
        }
        0x0800 => parse_ipv4(p),
        0x86dd => parse_ipv6(p),
        x => Body::Other(format!("ethertype {:04x}", x)),
    };
    Ok(Parsed { dst_hw, src_hw, body, frag1_tag: None })
}

/// IID of an IPv6 address derived from an 802.15.4 link-layer address (RFC 4944 §6 / RFC 6282 §3.2.2)
fn iid_from_ll(ll: &[u8]) -> Option<[u8; 8]> {
    match ll.len() {
        8 => {
            let mut i = [0u8; 8];
            i.copy_from_slice(ll);
            i[0] ^= 0x02;
            Some(i)
        }
        2 => Some([0, 0, 0, 0xff, 0xfe, 0, ll[0], ll[1]]),
        _ => None,
    }
}

/// IEEE 802.15.4 data frame carrying a 6LoWPAN IPHC datagram.
pub fn parse_ieee802154(f: &[u8]) -> Result<Parsed, String> {
    if f.len() < 3 {
        return Err("802.15.4 frame shorter than 3 bytes".into());
    }
    let fcf = u16::from_le_bytes([f[0], f[1]]);
    let ftype = fcf & 7;
    let security = fcf & (1 << 3) != 0;
    let panid_comp = fcf & (1 << 6) != 0;
    let dam = (fcf >> 10) & 3;
    let sam = (fcf >> 14) & 3;
    if ftype != 1 {
        return Err(format!("802.15.4 frame type {} (not data)", ftype));
    }
    if security {
        return Err("802.15.4 security enabled".into());
    }
    let mut o = 3; // fcf + sequence number
    let take = |o: &mut usize, n: usize| -> Result<Vec<u8>, String> {
        let s = f.get(*o..*o + n).ok_or("802.15.4 header truncated")?;
        *o += n;
        let mut v = s.to_vec();
        v.reverse(); // on-air order is little endian
        Ok(v)
    };
    let mut dst_hw = vec![];
    match dam {
        0 => {}
        2 => {
            take(&mut o, 2)?;
            dst_hw = take(&mut o, 2)?;
        }
        3 => {
            take(&mut o, 2)?;
            dst_hw = take(&mut o, 8)?;
        }
        _ => return Err("802.15.4 reserved dst addressing mode".into()),
    }
    let mut src_hw = vec![];
    match sam {
        0 => {}
        2 | 3 => {
            if !(panid_comp && dam != 0) {
                take(&mut o, 2)?;
            }
            src_hw = take(&mut o, if sam == 2 { 2 } else { 8 })?;
        }
        _ => return Err("802.15.4 reserved src addressing mode".into()),
    }
    let p = &f[o..];
    let d = *p.first().ok_or("802.15.4 frame without payload")?;
    if d >> 3 == 0b11000 {
        // FRAG1: datagram_size(11 bits) datagram_tag(16), then the compressed datagram start
        if p.len() < 4 {
            return Err("FRAG1 truncated".into());
        }
        let tag = u16::from_be_bytes([p[2], p[3]]);
        let body = parse_iphc(&p[4..], &src_hw, &dst_hw)?;
        return Ok(Parsed { dst_hw, src_hw, body, frag1_tag: Some(tag) });
    }
    if d >> 3 == 0b11100 {
        if p.len() < 5 {
            return Err("FRAGN truncated".into());
        }
        let tag = u16::from_be_bytes([p[2], p[3]]);
        return Ok(Parsed { dst_hw, src_hw, body: Body::LowpanFragN { tag }, frag1_tag: None });
    }
    let body = parse_iphc(p, &src_hw, &dst_hw)?;
    Ok(Parsed { dst_hw, src_hw, body, frag1_tag: None })
}

fn parse_iphc(p: &[u8], ll_src: &[u8], ll_dst: &[u8]) -> Result<Body, String> {
    if p.len() < 2 {
        return Err("6LoWPAN payload shorter than 2 bytes".into());
    }
    if p[0] >> 5 != 0b011 {
        return Ok(Body::Other(format!("6LoWPAN dispatch {:02x} (not IPHC)", p[0])));
    }
    let tf = (p[0] >> 3) & 3;
    let nh_c = (p[0] >> 2) & 1;
    let hlim = p[0] & 3;
    let cid = p[1] >> 7;
    let sac = (p[1] >> 6) & 1;
    let sam = (p[1] >> 4) & 3;
    let m = (p[1] >> 3) & 1;
    let dac = (p[1] >> 2) & 1;
    let dam = p[1] & 3;
    let mut o = 2usize;
    if cid == 1 {
        return Err("IPHC with context identifier extension (no context configured)".into());
    }
    o += match tf {
        0 => 4,
        1 => 3,
        2 => 1,
        _ => 0,
    };
    let get = |o: &mut usize, n: usize| -> Result<&[u8], String> {
        let s = p.get(*o..*o + n).ok_or("IPHC truncated")?;
        *o += n;
        Ok(s)
    };
    let mut next = None;
    if nh_c == 0 {
        next = Some(get(&mut o, 1)?[0]);
    }
    let hop = match hlim {
        0 => get(&mut o, 1)?[0],
        1 => 1,
        2 => 64,
        _ => 255,
    };
    let ll_prefix = |iid: &[u8]| -> [u8; 16] {
        let mut a = [0u8; 16];
        a[0] = 0xfe;
        a[1] = 0x80;
        a[8..].copy_from_slice(iid);
        a
    };
    let unicast = |o: &mut usize, ac: u8, am: u8, ll: &[u8]| -> Result<[u8; 16], String> {
        if ac == 1 {
            if am == 0 {
                return Ok([0u8; 16]);
            }
            return Err("IPHC context-based address (no context configured)".into());
        }
        Ok(match am {
            0 => {
                let mut a = [0u8; 16];
                a.copy_from_slice(get(o, 16)?);
                a
            }
            1 => ll_prefix(get(o, 8)?),
            2 => {
                let s = get(o, 2)?;
                ll_prefix(&[0, 0, 0, 0xff, 0xfe, 0, s[0], s[1]])
            }
            _ => ll_prefix(&iid_from_ll(ll).ok_or("IPHC elided address but no link-layer address")?),
        })
    };
    let src = unicast(&mut o, sac, sam, ll_src)?;
    let dst = if m == 0 {
        unicast(&mut o, dac, dam, ll_dst)?
    } else {
        if dac == 1 {
            return Err("IPHC context-based multicast".into());
        }
        let mut a = [0u8; 16];
        a[0] = 0xff;
        match dam {
            0 => a.copy_from_slice(get(&mut o, 16)?),
            1 => {
                let s = get(&mut o, 6)?;
                a[1] = s[0];
                a[11..16].copy_from_slice(&s[1..6]);
            }
            2 => {
                let s = get(&mut o, 4)?;
                a[1] = s[0];
                a[13..16].copy_from_slice(&s[1..4]);
            }
            _ => {
                a[1] = 0x02;
                a[15] = get(&mut o, 1)?[0];
            }
        }
        a
    };
    let rest = &p[o..];
    let l4 = match next {
        Some(nh) => parse_l4_v6(nh, rest),
        None => {
            // LOWPAN_NHC
            let b = *rest.first().ok_or("NHC truncated")?;
            if b >> 3 == 0b11110 {
                let pp = b & 3;
                let (sport, dport) = match pp {
                    0 => (be16(rest, 1), be16(rest, 3)),
                    1 => (be16(rest, 1), rest.get(3).map(|&x| 0xf000 | x as u16)),
                    2 => (rest.get(1).map(|&x| 0xf000 | x as u16), be16(rest, 2)),
                    _ => (rest.get(1).map(|&x| 0xf0b0 | (x >> 4) as u16), rest.get(1).map(|&x| 0xf0b0 | (x & 0xf) as u16)),
                };
                match (sport, dport) {
                    (Some(sport), Some(dport)) => L4::Udp { sport, dport },
                    _ => return Err("UDP NHC truncated".into()),
                }
            } else {
                return Err(format!("unsupported LOWPAN_NHC {:02x}", b));
            }
        }
    };
    Ok(Body::Ip { src: Ip::V6(src), dst: Ip::V6(dst), hop, l4 })
}

pub fn hw_show(h: &[u8]) -> String {
    h.iter().map(|b| format!("{:02x}", b)).collect::<Vec<_>>().join(":")
}

/// non-unicast hardware address: Ethernet group bit (covers broadcast); 802.15.4 short broadcast
pub fn hw_is_group(h: &[u8]) -> bool {
    match h.len() {
        6 => h[0] & 1 == 1,
        2 => h == [0xff, 0xff],
        _ => false,
    }
}
