//! Stimulus frame builders for the C16 harness, written out by hand from the RFCs so that the
//! harness controls every field (sender protocol/hardware addresses, flags, options).

use super::parse::Ip;

pub fn csum(parts: &[&[u8]]) -> u16 {
    let mut sum: u32 = 0;
    let mut odd: Option<u8> = None;
    for p in parts {
        for &b in p.iter() {
            match odd.take() {
                None => odd = Some(b),
                Some(h) => sum += u16::from_be_bytes([h, b]) as u32,
            }
        }
    }
    if let Some(h) = odd {
        sum += (h as u32) << 8;
    }
    while sum >> 16 != 0 {
        sum = (sum & 0xffff) + (sum >> 16);
    }
    !(sum as u16)
}

pub fn eth(dst: &[u8], src: &[u8], ety: u16, payload: &[u8]) -> Vec<u8> {
    let mut f = Vec::with_capacity(14 + payload.len());
    f.extend_from_slice(dst);
    f.extend_from_slice(src);
    f.extend_from_slice(&ety.to_be_bytes());
    f.extend_from_slice(payload);
    f
}

pub fn arp(op: u16, sha: &[u8], spa: &Ip, tha: &[u8], tpa: &Ip) -> Vec<u8> {
    let mut p = vec![0, 1, 8, 0, 6, 4];
    p.extend_from_slice(&op.to_be_bytes());
    p.extend_from_slice(sha);
    p.extend_from_slice(spa.bytes());
    p.extend_from_slice(tha);
    p.extend_from_slice(tpa.bytes());
    p
}

pub fn ipv4(src: &Ip, dst: &Ip, proto: u8, ttl: u8, payload: &[u8]) -> Vec<u8> {
    let total = (20 + payload.len()) as u16;
    let mut h = vec![0x45, 0];
    h.extend_from_slice(&total.to_be_bytes());
    h.extend_from_slice(&[0, 0, 0x40, 0, ttl, proto, 0, 0]);
    h.extend_from_slice(src.bytes());
    h.extend_from_slice(dst.bytes());
    let c = csum(&[&h]);
    h[10..12].copy_from_slice(&c.to_be_bytes());
    h.extend_from_slice(payload);
    h
}

pub fn ipv6(src: &Ip, dst: &Ip, nh: u8, hop: u8, payload: &[u8]) -> Vec<u8> {
    let mut h = vec![0x60, 0, 0, 0];
    h.extend_from_slice(&(payload.len() as u16).to_be_bytes());
    h.push(nh);
    h.push(hop);
    h.extend_from_slice(src.bytes());
    h.extend_from_slice(dst.bytes());
    h.extend_from_slice(payload);
    h
}

fn pseudo(src: &Ip, dst: &Ip, proto: u8, len: usize) -> Vec<u8> {
    let mut p = vec![];
    p.extend_from_slice(src.bytes());
    p.extend_from_slice(dst.bytes());
    match src {
        Ip::V4(_) => {
            p.push(0);
            p.push(proto);
            p.extend_from_slice(&(len as u16).to_be_bytes());
        }
        Ip::V6(_) => {
            p.extend_from_slice(&(len as u32).to_be_bytes());
            p.extend_from_slice(&[0, 0, 0, proto]);
        }
    }
    p
}

pub fn udp(src: &Ip, dst: &Ip, sport: u16, dport: u16, data: &[u8]) -> Vec<u8> {
    let len = 8 + data.len();
    let mut u = vec![];
    u.extend_from_slice(&sport.to_be_bytes());
    u.extend_from_slice(&dport.to_be_bytes());
    u.extend_from_slice(&(len as u16).to_be_bytes());
    u.extend_from_slice(&[0, 0]);
    u.extend_from_slice(data);
    let mut c = csum(&[&pseudo(src, dst, 17, len), &u]);
    if c == 0 {
        c = 0xffff;
    }
    u[6..8].copy_from_slice(&c.to_be_bytes());
    u
}

/// ICMPv4 echo (ty 8 request / 0 reply)
pub fn icmp4_echo(ty: u8, ident: u16, seq: u16, data: &[u8]) -> Vec<u8> {
    let mut m = vec![ty, 0, 0, 0];
    m.extend_from_slice(&ident.to_be_bytes());
    m.extend_from_slice(&seq.to_be_bytes());
    m.extend_from_slice(data);
    let c = csum(&[&m]);
    m[2..4].copy_from_slice(&c.to_be_bytes());
    m
}

/// (re)compute the ICMPv6 checksum of a message in place
pub fn icmp6_fix(src: &Ip, dst: &Ip, m: &mut [u8]) {
    m[2] = 0;
    m[3] = 0;
    let c = csum(&[&pseudo(src, dst, 58, m.len()), m]);
    m[2..4].copy_from_slice(&c.to_be_bytes());
}

fn icmp6_finish(src: &Ip, dst: &Ip, mut m: Vec<u8>) -> Vec<u8> {
    let c = csum(&[&pseudo(src, dst, 58, m.len()), &m]);
    m[2..4].copy_from_slice(&c.to_be_bytes());
    m
}

/// ICMPv6 echo (ty 128 request / 129 reply)
pub fn icmp6_echo(src: &Ip, dst: &Ip, ty: u8, ident: u16, seq: u16, data: &[u8]) -> Vec<u8> {
    let mut m = vec![ty, 0, 0, 0];
    m.extend_from_slice(&ident.to_be_bytes());
    m.extend_from_slice(&seq.to_be_bytes());
    m.extend_from_slice(data);
    icmp6_finish(src, dst, m)
}

/// link-layer address option (type 1 = source, 2 = target), padded to a multiple of 8 bytes
fn lladdr_opt(ty: u8, ll: &[u8]) -> Vec<u8> {
    let total = (2 + ll.len() + 7) / 8 * 8;
    let mut o = vec![ty, (total / 8) as u8];
    o.extend_from_slice(ll);
    o.resize(total, 0);
    o
}

/// Neighbor advertisement (RFC 4861 §4.4); flags: R=0x80 S=0x40 O=0x20
pub fn na(src: &Ip, dst: &Ip, flags: u8, target: &Ip, tlla: Option<&[u8]>) -> Vec<u8> {
    let mut m = vec![136, 0, 0, 0, flags, 0, 0, 0];
    m.extend_from_slice(target.bytes());
    if let Some(ll) = tlla {
        m.extend_from_slice(&lladdr_opt(2, ll));
    }
    icmp6_finish(src, dst, m)
}

/// Neighbor solicitation (RFC 4861 §4.3)
pub fn ns(src: &Ip, dst: &Ip, target: &Ip, slla: Option<&[u8]>) -> Vec<u8> {
    let mut m = vec![135, 0, 0, 0, 0, 0, 0, 0];
    m.extend_from_slice(target.bytes());
    if let Some(ll) = slla {
        m.extend_from_slice(&lladdr_opt(1, ll));
    }
    icmp6_finish(src, dst, m)
}

pub fn solicited_node(a: &Ip) -> Ip {
    let b = a.bytes();
    Ip::V6([0xff, 0x02, 0, 0, 0, 0, 0, 0, 0, 0, 0, 1, 0xff, b[13], b[14], b[15]])
}

pub fn eth_mcast_for(a: &Ip) -> Vec<u8> {
    let b = a.bytes();
    vec![0x33, 0x33, b[12], b[13], b[14], b[15]]
}

/// IEEE 802.15.4-2003 data frame, PAN-id compression, no security, carrying an IPHC datagram
/// with every field inline (TF elided, NH inline, HLIM inline, SAM=DAM=00).
pub fn lowpan(pan: u16, ll_dst: &[u8], ll_src: &[u8], seq: u8, src: &Ip, dst: &Ip, nh: u8, hop: u8, payload: &[u8]) -> Vec<u8> {
    let mode = |a: &[u8]| -> u16 {
        match a.len() {
            2 => 2,
            8 => 3,
            _ => 0,
        }
    };
    let fcf: u16 = 1 | (1 << 6) | (mode(ll_dst) << 10) | (mode(ll_src) << 14);
    let mut f = vec![];
    f.extend_from_slice(&fcf.to_le_bytes());
    f.push(seq);
    f.extend_from_slice(&pan.to_le_bytes());
    let mut d = ll_dst.to_vec();
    d.reverse();
    f.extend_from_slice(&d);
    let mut s = ll_src.to_vec();
    s.reverse();
    f.extend_from_slice(&s);
    let m = if dst.is_multicast() { 1u8 } else { 0 };
    f.push(0b0111_1000);
    f.push(m << 3);
    f.push(nh);
    f.push(hop);
    f.extend_from_slice(src.bytes());
    f.extend_from_slice(dst.bytes());
    f.extend_from_slice(payload);
    f
}

/// IPv4 fragment: `payload` is the slice of the original IP payload starting at `offset` octets
pub fn ipv4_frag(src: &Ip, dst: &Ip, proto: u8, ttl: u8, ident: u16, offset: usize, more: bool, payload: &[u8]) -> Vec<u8> {
    let total = (20 + payload.len()) as u16;
    let mut h = vec![0x45, 0];
    h.extend_from_slice(&total.to_be_bytes());
    h.extend_from_slice(&ident.to_be_bytes());
    let fo = ((offset / 8) as u16) | if more { 0x2000 } else { 0 };
    h.extend_from_slice(&fo.to_be_bytes());
    h.extend_from_slice(&[ttl, proto, 0, 0]);
    h.extend_from_slice(src.bytes());
    h.extend_from_slice(dst.bytes());
    let c = csum(&[&h]);
    h[10..12].copy_from_slice(&c.to_be_bytes());
    h.extend_from_slice(payload);
    h
}

fn mac154(pan: u16, ll_dst: &[u8], ll_src: &[u8], seq: u8) -> Vec<u8> {
    let mode = |a: &[u8]| -> u16 {
        match a.len() {
            2 => 2,
            8 => 3,
            _ => 0,
        }
    };
    let fcf: u16 = 1 | (1 << 6) | (mode(ll_dst) << 10) | (mode(ll_src) << 14);
    let mut f = vec![];
    f.extend_from_slice(&fcf.to_le_bytes());
    f.push(seq);
    f.extend_from_slice(&pan.to_le_bytes());
    let mut d = ll_dst.to_vec();
    d.reverse();
    f.extend_from_slice(&d);
    let mut s = ll_src.to_vec();
    s.reverse();
    f.extend_from_slice(&s);
    f
}

/// An IPv6 datagram from a neighbor as two 6LoWPAN fragments (RFC 4944 §5.3): FRAG1 carries the
/// IPHC header (all fields inline, standing for the 40-octet IPv6 header) plus the first
/// `first` payload octets (40+first must be a multiple of 8), FRAGN the rest.
pub fn lowpan_two_frags(pan: u16, ll_dst: &[u8], ll_src: &[u8], tag: u16, src: &Ip, dst: &Ip, nh: u8, hop: u8, payload: &[u8], first: usize) -> Vec<Vec<u8>> {
    assert!((40 + first) % 8 == 0 && first < payload.len());
    let size = (40 + payload.len()) as u16;
    let mut f1 = mac154(pan, ll_dst, ll_src, 8);
    f1.push(0b1100_0000 | (size >> 8) as u8);
    f1.push(size as u8);
    f1.extend_from_slice(&tag.to_be_bytes());
    f1.push(0b0111_1000);
    f1.push(0);
    f1.push(nh);
    f1.push(hop);
    f1.extend_from_slice(src.bytes());
    f1.extend_from_slice(dst.bytes());
    f1.extend_from_slice(&payload[..first]);
    let mut f2 = mac154(pan, ll_dst, ll_src, 9);
    f2.push(0b1110_0000 | (size >> 8) as u8);
    f2.push(size as u8);
    f2.extend_from_slice(&tag.to_be_bytes());
    f2.push(((40 + first) / 8) as u8);
    f2.extend_from_slice(&payload[first..]);
    vec![f1, f2]
}
