//! C13 — poll_at is a sufficient and non-spinning wake-up schedule.
//!
//! At EVERY state reached by the explorers below, after the interfaces were polled at t and
//! report the deadline D = poll_at(t):
//!  (A) for each probe instant p in {t, t+1us, (t+D)/2, D-1ms, D-1us} with p < D (D = None:
//!      t+1s, t+1000s, t+10^6 s) a FRESH replay of the history polls at p with no new frame
//!      and no socket call; nothing may be handed to the device (MLD/IGMP reports excepted,
//!      they are outside the claim);
//!  (B) a poll that neither consumed nor produced a frame must leave D = None or D > t.
//! Part 1 wraps the two-endpoint TCP harness (all TCP timers, keep-alive, timeout, delayed
//! ACK, zero-window probes, TIME-WAIT; raw IP and Ethernet; SLAAC off and on).
//! Part 2 is a single Ethernet interface with UDP, DNS and DHCPv4 sockets, unresolved
//! neighbors, pending IPv4 fragments and SLAAC (router advertisements / silence).

use crate::core::*;
use crate::sim::*;
use crate::tcp2::{Ev as TEv, Tcp2, Tcp2Cfg};
use serde_json::json;
use smoltcp::iface::{Config, Interface, SocketHandle, SocketSet};
use smoltcp::phy::Medium;
use smoltcp::socket::{dhcpv4, dns, icmp, raw, tcp, udp};
use smoltcp::time::Instant;
use smoltcp::wire::{EthernetAddress, HardwareAddress, IpAddress, IpCidr, Ipv4Address, Ipv6Address};

fn probe_instants(t: i64, d: Option<i64>) -> Vec<(i64, &'static str)> {
    let mut v = vec![];
    match d {
        Some(d) => {
            for (p, n) in [(t, "same-instant"), (t + 1, "plus-1us"), (t + (d - t) / 2, "midway"), (d - 1000, "minus-1ms"), (d - 1, "minus-1us")] {
                if p >= t && p < d && !v.iter().any(|x: &(i64, &str)| x.0 == p) {
                    v.push((p, n));
                }
            }
        }
        None => {
            v.push((t + 1_000_000, "none+1s"));
            v.push((t + 1_000_000_000, "none+1000s"));
            v.push((t + 1_000_000_000_000, "none+1e6s"));
        }
    }
    v
}

/// true for frames the claim excludes: IGMP and MLD reports (the interface does not schedule
/// them through poll_at)
fn is_group_report(eth: bool, f: &[u8]) -> bool {
    let Some(ip) = crate::tcp2::ip_part(eth, f) else { return false };
    if ip.is_empty() {
        return false;
    }
    match ip[0] >> 4 {
        4 => ip.len() > 9 && ip[9] == 2,
        6 => {
            // MLD: hop-by-hop then ICMPv6 type 143/131/132, or directly ICMPv6
            if ip.len() < 48 {
                return false;
            }
            let (nh, off) = if ip[6] == 0 { (ip[40], 40 + (ip[41] as usize + 1) * 8) } else { (ip[6], 40) };
            nh == 58 && ip.len() > off && matches!(ip[off], 130 | 131 | 132 | 143)
        }
        _ => false,
    }
}

// =======================================================================================
// Part 1: TCP (wraps tcp2)
// =======================================================================================

pub struct P1 {
    inner: Tcp2,
    hist: Vec<TEv>,
    probes: u64,
}

impl P1 {
    fn run_probes(&mut self, out: &mut Vec<Viol>) {
        let cfg = self.inner.cfg.clone();
        let t = self.inner.now;
        for side in 0..2 {
            // (B) handled through the spinning flag computed by the settle loop
            if self.inner.ends[side].spinning {
                out.push(Viol::new(
                    format!("C13/spin/tcp2/{}/{}", self.inner.ends[side].state(), self.inner.attribution(side)),
                    format!(
                        "{}: poll at t={}us neither received nor transmitted a frame, yet poll_at = {:?} (<= t): an event loop built on poll_at spins",
                        ["A", "B"][side],
                        t,
                        self.inner.poll_at(side)
                    ),
                ));
                continue;
            }
            let d = self.inner.poll_at(side);
            for (p, kind) in probe_instants(t, d) {
                // fresh replay of the history, then ONE early poll of this side at p
                let mut f = Tcp2::new(&cfg);
                let mut dummy = vec![];
                for e in &self.hist {
                    f.apply(e, &mut dummy);
                }
                f.keep_emitted = true;
                f.emitted.clear();
                f.now = p;
                f.poll_side(side);
                self.probes += 1;
                let bad: Vec<&(usize, Vec<u8>)> = f.emitted.iter().filter(|(_, fr)| !is_group_report(cfg.eth, fr)).collect();
                if !bad.is_empty() {
                    let what = crate::tcp2::ip_part(cfg.eth, &bad[0].1).map(crate::wirecheck::describe_ip_frame).unwrap_or_else(|| "non-IP frame".into());
                    out.push(Viol::new(
                        format!(
                            "C13/early-poll-transmits/tcp2{}/{}/{}/{}",
                            if cfg.slaac { "+slaac" } else { "" },
                            self.inner.ends[side].state(),
                            self.inner.attribution(side),
                            if d.is_none() { "deadline-none" } else { "before-deadline" }
                        ),
                        format!(
                            "{}: after the poll at t={}us poll_at = {:?}, but a poll at p={}us ({}) with no new frame and no socket call transmitted {} frame(s), first: {}",
                            ["A", "B"][side],
                            t,
                            d,
                            p,
                            kind,
                            bad.len(),
                            what
                        ),
                    ));
                    break;
                }
            }
        }
    }
}

impl Harness for P1 {
    type Cfg = Tcp2Cfg;
    type Ev = TEv;
    fn new(cfg: &Tcp2Cfg) -> P1 {
        P1 { inner: Tcp2::new(cfg), hist: vec![], probes: 0 }
    }
    fn enabled(&self) -> Vec<(TEv, u32)> {
        self.inner.enabled()
    }
    fn apply(&mut self, ev: &TEv, out: &mut Vec<Viol>) {
        let mut inner_out = vec![];
        self.inner.apply(ev, &mut inner_out);
        // violations of other properties are not this check's business
        out.extend(inner_out.into_iter().filter(|v| v.sig.starts_with("MACHINERY") || v.sig.starts_with("panic/")));
        self.hist.push(ev.clone());
        self.run_probes(out);
    }
    fn fingerprint(&self) -> u128 {
        self.inner.fingerprint()
    }
    fn outcome(&self) -> String {
        format!("{} probes{}", self.inner.outcome(), if self.probes > 0 { "" } else { "-none" })
    }
}

pub fn p1_configs(tier: Tier) -> Vec<(Tcp2Cfg, u32)> {
    let b = Tcp2Cfg::base;
    let k = if tier == Tier::Quick { 2 } else { 3 };
    let mut v = vec![
        (Tcp2Cfg { len: [60, 20], ..b("c13-bidir") }, k),
        (Tcp2Cfg { len: [60, 0], rx: [64, 16], ..b("c13-rx16") }, k),
        (Tcp2Cfg { len: [60, 20], keep_alive_ms: Some(700), timeout_ms: Some(5000), ..b("c13-keepalive-timeout") }, k),
        (Tcp2Cfg { len: [40, 10], nagle: false, ack_delay: false, ..b("c13-noackdelay") }, k),
        (Tcp2Cfg { len: [30, 0], keep_alive_ms: Some(300), allow_set_keepalive: true, allow_stall: false, ..b("c13-keepalive-toggled") }, k),
        (Tcp2Cfg { len: [60, 20], eth: true, ..b("c13-eth") }, k),
        (Tcp2Cfg { len: [60, 20], eth: true, v6: true, mtu: 1280, ..b("c13-eth-v6") }, k),
        (Tcp2Cfg { len: [60, 20], eth: true, slaac: true, ..b("c13-eth-slaac") }, k),
        (Tcp2Cfg { len: [60, 20], eth: true, v6: true, mtu: 1280, slaac: true, ..b("c13-eth-v6-slaac") }, k),
    ];
    if tier == Tier::Thorough {
        v.push((Tcp2Cfg { len: [120, 0], rx: [64, 256], tx: [256, 64], cc: 1, ..b("c13-reno") }, 2));
        v.push((Tcp2Cfg { len: [20, 9], rx: [8, 8], tx: [16, 16], ..b("c13-rx8") }, 2));
    }
    v
}

// =======================================================================================
// Part 2: one Ethernet interface with UDP, DNS, DHCPv4, unresolved neighbors, fragments, SLAAC
// =======================================================================================

#[derive(Clone, Debug)]
pub struct P2Cfg {
    pub name: &'static str,
    pub slaac: bool,
    pub dhcp: bool,
    pub mtu: usize,
    /// a scripted DHCP server (and nothing else) is in the alphabet: leases are acquired,
    /// renewed, refused, so that the deadlines of a configured client are probed too
    pub served: bool,
    /// second alphabet: IPv6 neighbor discovery, icmp / raw / tcp sockets (instead of DNS,
    /// big datagrams and the 61 s jump)
    pub more: bool,
    /// third alphabet: device back-pressure (frames pile up in sockets and in the fragmenter)
    pub throttle: bool,
    /// fourth alphabet: two DNS queries with staggered starts against a reachable server
    pub dnsq: bool,
    /// the interface has no IPv4 address at all (datagrams to IPv4 destinations find no source)
    pub no_v4: bool,
}

pub fn p2_configs() -> Vec<P2Cfg> {
    vec![
        P2Cfg { name: "iface", slaac: false, dhcp: false, mtu: 1500, served: false, more: false, throttle: false, dnsq: false, no_v4: false },
        P2Cfg { name: "iface-frag", slaac: false, dhcp: false, mtu: 120, served: false, more: false, throttle: false, dnsq: false, no_v4: false },
        P2Cfg { name: "iface-dhcp", slaac: false, dhcp: true, mtu: 1500, served: false, more: false, throttle: false, dnsq: false, no_v4: false },
        P2Cfg { name: "iface-dhcp-served", slaac: false, dhcp: true, mtu: 1500, served: true, more: false, throttle: false, dnsq: false, no_v4: false },
        P2Cfg { name: "iface-more", slaac: false, dhcp: false, mtu: 1500, served: false, more: true, throttle: false, dnsq: false, no_v4: false },
        P2Cfg { name: "iface-slaac-more", slaac: true, dhcp: false, mtu: 1500, served: false, more: true, throttle: false, dnsq: false, no_v4: false },
        P2Cfg { name: "iface-frag-throttle", slaac: false, dhcp: false, mtu: 120, served: false, more: false, throttle: true, dnsq: false, no_v4: false },
        P2Cfg { name: "iface-dns-two-queries", slaac: false, dhcp: false, mtu: 1500, served: false, more: false, throttle: false, dnsq: true, no_v4: false },
        P2Cfg { name: "iface-more-no-ipv4", slaac: false, dhcp: false, mtu: 1500, served: false, more: true, throttle: false, dnsq: false, no_v4: true },
        P2Cfg { name: "iface-slaac", slaac: true, dhcp: false, mtu: 1500, served: false, more: false, throttle: false, dnsq: false, no_v4: false },
        P2Cfg { name: "iface-slaac-frag", slaac: true, dhcp: false, mtu: 120, served: false, more: false, throttle: false, dnsq: false, no_v4: false },
    ]
}

/// a sleep of 2^31 ms + 1 s (the host was suspended for 25 days): every timer is met far
/// beyond its deadline, and 32-bit millisecond arithmetic anywhere would wrap
pub const LONG_SLEEP_US: i64 = ((1i64 << 31) + 1_000) * 1_000;

#[derive(Clone, Debug, PartialEq)]
pub enum P2Ev {
    /// advance to poll_at (or +1 s if None) and poll
    Tick,
    Plus(i64),
    UdpToUnresolved,
    UdpToResolved,
    /// a datagram with an EMPTY payload to the resolved peer (queued packets, zero queued octets)
    UdpEmptyToResolved,
    /// the same to the neighbor nobody answers for: it stays queued behind neighbor discovery
    UdpEmptyToUnresolved,
    UdpBig,
    DnsQuery,
    /// a second, different DNS query (two pending queries in one socket, staggered timers)
    DnsQueryB,
    /// two datagrams to the resolved peer queued by the application before it polls
    UdpTwoToResolved,
    /// two echo requests to an IPv4 host queued on the icmp socket before the poll
    IcmpTwoToV4,
    /// two raw packets whose protocol field is not the raw socket's, queued before the poll
    RawTwoWrongProto,
    /// a `.local` query: sent to the two mDNS groups one after the other (a two-"server" query
    /// even where only one unicast server can be configured)
    DnsQueryLocal,
    ArpReplyFromPeer,
    RouterAdvert { lifetime_s: u16, prefix: bool },
    /// UDP datagram to an on-link IPv6 neighbor nobody answers for (neighbor solicitation back-off)
    UdpToUnresolvedV6,
    /// ICMP echo request from an icmp socket to the unresolved IPv4 neighbor
    IcmpToUnresolved,
    /// raw IPv4 packet (protocol 253) to the peer
    RawToPeer,
    /// TCP active open towards the peer (SYN retransmission timer x neighbor resolution)
    TcpConnectPeer,
    /// TCP abort
    TcpAbort,
    /// the device stops accepting frames (transmit() refuses) ...
    Hold,
    /// ... and accepts again; nothing is polled by this event, so whatever piled up is still
    /// pending when the deadline is read and probed
    Release,
    /// a 300-octet datagram is queued and polled ONCE on a device that takes a single frame:
    /// the remaining fragments stay in the interface's fragmenter
    UdpBigOneFrame,
    /// the DHCP server answers the client's latest message: DISCOVER -> OFFER, REQUEST -> ACK
    /// (lease of `lease_s` seconds, T1/T2 left to the client's defaults)
    DhcpAnswer { lease_s: u32 },
    /// like DhcpAnswer, with explicit renewal (T1, option 58) and rebinding (T2, option 59)
    /// times - also inconsistent ones (T2 < T1, T2 = lease), which a client must not schedule by
    DhcpAnswerTimers { lease_s: u32, t1_s: u32, t2_s: u32 },
    /// the DHCP server refuses the client's latest REQUEST
    DhcpNak,
}

pub struct P2 {
    cfg: P2Cfg,
    iface: Interface,
    dev: SimDevice,
    sockets: SocketSet<'static>,
    udp: SocketHandle,
    dns: SocketHandle,
    icmp: SocketHandle,
    raw: SocketHandle,
    tcp: SocketHandle,
    now: i64,
    hist: Vec<P2Ev>,
    last_poll_quiet: bool,
    probes: u64,
    /// latest DHCP client message seen on the wire: (message type, transaction id)
    last_dhcp: Option<(smoltcp::wire::DhcpMessageType, u32)>,
}

const MY_MAC: [u8; 6] = [2, 0, 0, 0, 0, 1];
const PEER_MAC: [u8; 6] = [2, 0, 0, 0, 0, 2];

impl P2 {
    fn inst(&self) -> Instant {
        Instant::from_micros(self.now)
    }
    /// returns (frames consumed, frames emitted excluding group reports)
    fn poll(&mut self) -> (usize, usize) {
        let t = self.inst();
        let rx_before = self.dev.rx.len();
        self.iface.poll(t, &mut self.dev, &mut self.sockets);
        // let the DHCP client apply nothing: configuration changes are application calls
        let tx = self.dev.take_tx();
        for (_, f) in &tx {
            self.note_dhcp(f);
        }
        let n = tx.iter().filter(|(_, f)| !is_group_report(true, f)).count();
        (rx_before - self.dev.rx.len(), n)
    }
    /// driver only (never an oracle): remember the client's latest DHCP message
    fn note_dhcp(&mut self, f: &[u8]) {
        use smoltcp::wire::*;
        if f.len() < 42 || f[12] != 0x08 || f[13] != 0x00 || f[14] != 0x45 || f[23] != 17 || f[36] != 0 || f[37] != 67 {
            return;
        }
        if let Ok(p) = DhcpPacket::new_checked(&f[42..]) {
            if let Ok(r) = DhcpRepr::parse(&p) {
                self.last_dhcp = Some((r.message_type, r.transaction_id));
            }
        }
    }
    fn dhcp_reply(&mut self, ty: smoltcp::wire::DhcpMessageType, xid: u32, lease_s: u32, timers: Option<(u32, u32)>) {
        use smoltcp::wire::*;
        let server = Ipv4Address::new(192, 168, 1, 2);
        let client = Ipv4Address::new(192, 168, 1, 1);
        let r = DhcpRepr {
            message_type: ty,
            transaction_id: xid,
            secs: 0,
            client_hardware_address: EthernetAddress(MY_MAC),
            client_ip: Ipv4Address::UNSPECIFIED,
            your_ip: if ty == DhcpMessageType::Nak { Ipv4Address::UNSPECIFIED } else { client },
            server_ip: server,
            router: Some(server),
            subnet_mask: Some(Ipv4Address::new(255, 255, 255, 0)),
            relay_agent_ip: Ipv4Address::UNSPECIFIED,
            broadcast: false,
            requested_ip: None,
            client_identifier: None,
            server_identifier: Some(server),
            parameter_request_list: None,
            dns_servers: None,
            max_size: None,
            lease_duration: if ty == DhcpMessageType::Nak { None } else { Some(lease_s) },
            renew_duration: if ty == DhcpMessageType::Nak { None } else { timers.map(|t| t.0) },
            rebind_duration: if ty == DhcpMessageType::Nak { None } else { timers.map(|t| t.1) },
            additional_options: &[],
        };
        let dl = r.buffer_len();
        let mut f = vec![0u8; 14 + 20 + 8 + dl];
        f[0..6].copy_from_slice(&[0xff; 6]);
        f[6..12].copy_from_slice(&PEER_MAC);
        f[12] = 0x08;
        let ip = Ipv4Repr { src_addr: server, dst_addr: Ipv4Address::BROADCAST, next_header: IpProtocol::Udp, payload_len: 8 + dl, hop_limit: 64 };
        ip.emit(&mut Ipv4Packet::new_unchecked(&mut f[14..34]), &smoltcp::phy::ChecksumCapabilities::default());
        let udp = UdpRepr { src_port: 67, dst_port: 68 };
        udp.emit(
            &mut UdpPacket::new_unchecked(&mut f[34..]),
            &IpAddress::Ipv4(server),
            &IpAddress::Ipv4(Ipv4Address::BROADCAST),
            dl,
            |b| r.emit(&mut DhcpPacket::new_unchecked(b)).unwrap(),
            &smoltcp::phy::ChecksumCapabilities::default(),
        );
        self.dev.rx.push_back(f);
    }
    fn arp_reply_from_peer(&mut self) {
        // unsolicited ARP reply 192.168.1.2 is-at PEER_MAC, addressed to us
        let mut f = vec![];
        f.extend_from_slice(&MY_MAC);
        f.extend_from_slice(&PEER_MAC);
        f.extend_from_slice(&[0x08, 0x06, 0, 1, 8, 0, 6, 4, 0, 2]);
        f.extend_from_slice(&PEER_MAC);
        f.extend_from_slice(&[192, 168, 1, 2]);
        f.extend_from_slice(&MY_MAC);
        f.extend_from_slice(&[192, 168, 1, 1]);
        self.dev.rx.push_back(f);
    }
    fn poll_at(&mut self) -> Option<i64> {
        let t = self.inst();
        self.iface.poll_at(t, &self.sockets).map(|x| x.total_micros())
    }
    fn apply_inner(&mut self, ev: &P2Ev) {
        match ev {
            P2Ev::Tick => {
                match self.poll_at() {
                    Some(d) if d > self.now => self.now = d,
                    Some(_) => {}
                    None => self.now += 1_000_000,
                }
            }
            P2Ev::Plus(us) => self.now += *us,
            P2Ev::UdpToUnresolved => {
                let s = self.sockets.get_mut::<udp::Socket>(self.udp);
                let _ = s.send_slice(b"x", (IpAddress::v4(192, 168, 1, 77), 9000));
            }
            P2Ev::UdpToResolved => {
                let s = self.sockets.get_mut::<udp::Socket>(self.udp);
                let _ = s.send_slice(b"y", (IpAddress::v4(192, 168, 1, 2), 9000));
            }
            P2Ev::UdpEmptyToUnresolved => {
                let s = self.sockets.get_mut::<udp::Socket>(self.udp);
                let _ = s.send_slice(b"", (IpAddress::v4(192, 168, 1, 77), 9000));
            }
            P2Ev::UdpEmptyToResolved => {
                let s = self.sockets.get_mut::<udp::Socket>(self.udp);
                let _ = s.send_slice(b"", (IpAddress::v4(192, 168, 1, 2), 9000));
            }
            P2Ev::UdpBig => {
                let s = self.sockets.get_mut::<udp::Socket>(self.udp);
                let _ = s.send_slice(&[0x55; 300], (IpAddress::v4(192, 168, 1, 2), 9000));
            }
            P2Ev::DnsQuery => {
                let cx = self.iface.context();
                let s = self.sockets.get_mut::<dns::Socket>(self.dns);
                let _ = s.start_query(cx, "a.example", smoltcp::wire::DnsQueryType::A);
            }
            P2Ev::DnsQueryB => {
                let cx = self.iface.context();
                let s = self.sockets.get_mut::<dns::Socket>(self.dns);
                let _ = s.start_query(cx, "b.example", smoltcp::wire::DnsQueryType::A);
            }
            P2Ev::UdpTwoToResolved => {
                let s = self.sockets.get_mut::<udp::Socket>(self.udp);
                let _ = s.send_slice(b"one", (IpAddress::v4(192, 168, 1, 2), 9000));
                let _ = s.send_slice(b"two", (IpAddress::v4(192, 168, 1, 2), 9000));
            }
            P2Ev::IcmpTwoToV4 => {
                use smoltcp::wire::*;
                for seq in 1..=2u16 {
                    let r = Icmpv4Repr::EchoRequest { ident: 0x1234, seq_no: seq, data: b"ping" };
                    let s = self.sockets.get_mut::<icmp::Socket>(self.icmp);
                    if let Ok(b) = s.send(r.buffer_len(), IpAddress::v4(192, 168, 1, 2)) {
                        r.emit(&mut Icmpv4Packet::new_unchecked(b), &smoltcp::phy::ChecksumCapabilities::default());
                    }
                }
            }
            P2Ev::RawTwoWrongProto => {
                use smoltcp::wire::*;
                for _ in 0..2 {
                    let ip = Ipv4Repr { src_addr: Ipv4Address::new(192, 168, 1, 1), dst_addr: Ipv4Address::new(192, 168, 1, 2), next_header: IpProtocol::Unknown(254), payload_len: 4, hop_limit: 64 };
                    let mut b = [0u8; 24];
                    ip.emit(&mut Ipv4Packet::new_unchecked(&mut b[..]), &smoltcp::phy::ChecksumCapabilities::default());
                    let s = self.sockets.get_mut::<raw::Socket>(self.raw);
                    let _ = s.send_slice(&b);
                }
            }
            P2Ev::DnsQueryLocal => {
                let cx = self.iface.context();
                let s = self.sockets.get_mut::<dns::Socket>(self.dns);
                let _ = s.start_query(cx, "printer.local", smoltcp::wire::DnsQueryType::A);
            }
            P2Ev::ArpReplyFromPeer => self.arp_reply_from_peer(),
            P2Ev::Hold => self.dev.tx_budget = Some(0),
            P2Ev::Release => {
                self.dev.tx_budget = None;
                self.last_poll_quiet = false;
                return;
            }
            P2Ev::UdpBigOneFrame => {
                let s = self.sockets.get_mut::<udp::Socket>(self.udp);
                let _ = s.send_slice(&[0x66; 300], (IpAddress::v4(192, 168, 1, 2), 9000));
                let held = self.dev.tx_budget;
                if held.is_none() {
                    self.dev.tx_budget = Some(1);
                }
                self.poll();
                self.dev.tx_budget = held;
                self.last_poll_quiet = false;
                return;
            }
            P2Ev::UdpToUnresolvedV6 => {
                let s = self.sockets.get_mut::<udp::Socket>(self.udp);
                let _ = s.send_slice(b"z", (IpAddress::Ipv6(Ipv6Address::new(0xfe80, 0, 0, 0, 0, 0, 0, 0x77)), 9000));
            }
            P2Ev::IcmpToUnresolved => {
                use smoltcp::wire::*;
                let r = Icmpv4Repr::EchoRequest { ident: 0x1234, seq_no: 1, data: b"ping" };
                let s = self.sockets.get_mut::<icmp::Socket>(self.icmp);
                if let Ok(b) = s.send(r.buffer_len(), IpAddress::v4(192, 168, 1, 77)) {
                    r.emit(&mut Icmpv4Packet::new_unchecked(b), &smoltcp::phy::ChecksumCapabilities::default());
                }
            }
            P2Ev::RawToPeer => {
                use smoltcp::wire::*;
                let ip = Ipv4Repr { src_addr: Ipv4Address::new(192, 168, 1, 1), dst_addr: Ipv4Address::new(192, 168, 1, 2), next_header: IpProtocol::Unknown(253), payload_len: 4, hop_limit: 64 };
                let mut b = [0u8; 24];
                ip.emit(&mut Ipv4Packet::new_unchecked(&mut b[..]), &smoltcp::phy::ChecksumCapabilities::default());
                b[20..].copy_from_slice(b"rawp");
                let s = self.sockets.get_mut::<raw::Socket>(self.raw);
                let _ = s.send_slice(&b);
            }
            P2Ev::TcpConnectPeer => {
                let cx = self.iface.context();
                let s = self.sockets.get_mut::<tcp::Socket>(self.tcp);
                let _ = s.connect(cx, (IpAddress::v4(192, 168, 1, 2), 80), 40000);
            }
            P2Ev::TcpAbort => {
                let s = self.sockets.get_mut::<tcp::Socket>(self.tcp);
                s.abort();
            }
            P2Ev::DhcpAnswer { lease_s } => {
                use smoltcp::wire::DhcpMessageType as M;
                // the server is also the resolved neighbor the unicast renewals go to
                self.arp_reply_from_peer();
                match self.last_dhcp.take() {
                    Some((M::Discover, xid)) => self.dhcp_reply(M::Offer, xid, *lease_s, None),
                    Some((M::Request, xid)) => self.dhcp_reply(M::Ack, xid, *lease_s, None),
                    _ => {}
                }
            }
            P2Ev::DhcpAnswerTimers { lease_s, t1_s, t2_s } => {
                use smoltcp::wire::DhcpMessageType as M;
                self.arp_reply_from_peer();
                match self.last_dhcp.take() {
                    Some((M::Discover, xid)) => self.dhcp_reply(M::Offer, xid, *lease_s, Some((*t1_s, *t2_s))),
                    Some((M::Request, xid)) => self.dhcp_reply(M::Ack, xid, *lease_s, Some((*t1_s, *t2_s))),
                    _ => {}
                }
            }
            P2Ev::DhcpNak => {
                use smoltcp::wire::DhcpMessageType as M;
                if let Some((M::Request, xid)) = self.last_dhcp.take() {
                    self.dhcp_reply(M::Nak, xid, 0, None);
                }
            }
            P2Ev::RouterAdvert { lifetime_s, prefix } => {
                use smoltcp::wire::*;
                let src = Ipv6Address::new(0xfe80, 0, 0, 0, 0, 0, 0, 0x99);
                let dst = Ipv6Address::new(0xff02, 0, 0, 0, 0, 0, 0, 1);
                let ra = NdiscRepr::RouterAdvert {
                    hop_limit: 64,
                    flags: NdiscRouterFlags::empty(),
                    router_lifetime: smoltcp::time::Duration::from_secs(*lifetime_s as u64),
                    reachable_time: smoltcp::time::Duration::from_millis(0),
                    retrans_time: smoltcp::time::Duration::from_millis(0),
                    lladdr: Some(RawHardwareAddress::from_bytes(&PEER_MAC)),
                    mtu: None,
                    prefix_info: if *prefix {
                        Some(NdiscPrefixInformation {
                            prefix_len: 64,
                            flags: NdiscPrefixInfoFlags::ON_LINK | NdiscPrefixInfoFlags::ADDRCONF,
                            valid_lifetime: smoltcp::time::Duration::from_secs(30),
                            preferred_lifetime: smoltcp::time::Duration::from_secs(20),
                            prefix: Ipv6Address::new(0x2001, 0xdb8, 0, 1, 0, 0, 0, 0),
                        })
                    } else {
                        None
                    },
                };
                let icmp = Icmpv6Repr::Ndisc(ra);
                let ip = Ipv6Repr { src_addr: src, dst_addr: dst, next_header: IpProtocol::Icmpv6, payload_len: icmp.buffer_len(), hop_limit: 255 };
                let mut f = vec![0u8; 14 + 40 + icmp.buffer_len()];
                f[0..6].copy_from_slice(&[0x33, 0x33, 0, 0, 0, 1]);
                f[6..12].copy_from_slice(&PEER_MAC);
                f[12] = 0x86;
                f[13] = 0xdd;
                ip.emit(&mut Ipv6Packet::new_unchecked(&mut f[14..54]));
                icmp.emit(&src, &dst, &mut Icmpv6Packet::new_unchecked(&mut f[54..]), &smoltcp::phy::ChecksumCapabilities::default());
                self.dev.rx.push_back(f);
            }
        }
        // poll until the interface asks for a later time (bounded)
        let mut quiet = true;
        for i in 0..16 {
            let (rx, tx) = self.poll();
            quiet = rx == 0 && tx == 0;
            match self.poll_at() {
                Some(d) if d <= self.now && !quiet => continue,
                _ => {}
            }
            let _ = i;
            break;
        }
        self.last_poll_quiet = quiet;
    }
}

impl Harness for P2 {
    type Cfg = P2Cfg;
    type Ev = P2Ev;
    fn new(cfg: &P2Cfg) -> P2 {
        let mut dev = SimDevice::new(Medium::Ethernet, cfg.mtu + 14);
        let mut c = Config::new(HardwareAddress::Ethernet(EthernetAddress(MY_MAC)));
        c.slaac = cfg.slaac;
        c.random_seed = 7;
        let mut iface = Interface::new(c, &mut dev, Instant::from_micros(0));
        iface.update_ip_addrs(|a| {
            if !cfg.no_v4 {
                a.push(IpCidr::new(IpAddress::v4(192, 168, 1, 1), 24)).unwrap();
            }
            a.push(IpCidr::new(IpAddress::Ipv6(Ipv6Address::new(0xfe80, 0, 0, 0, 0, 0, 0, 1)), 64)).unwrap();
        });
        iface.routes_mut().add_default_ipv4_route(Ipv4Address::new(192, 168, 1, 2)).unwrap();
        let mut sockets = SocketSet::new(vec![]);
        let mut u = udp::Socket::new(
            udp::PacketBuffer::new(vec![udp::PacketMetadata::EMPTY; 4], vec![0u8; 1024]),
            udp::PacketBuffer::new(vec![udp::PacketMetadata::EMPTY; 4], vec![0u8; 1024]),
        );
        u.bind(5000).unwrap();
        let udp = sockets.add(u);
        // `dnsq` configurations: the server is off-link, i.e. reached through the default gateway
        // (the peer, resolvable by ArpReplyFromPeer), so that queries really leave and their
        // retransmission timers run; elsewhere the server is an on-link host nobody answers for
        let server = if cfg.dnsq { IpAddress::v4(10, 9, 9, 53) } else { IpAddress::v4(192, 168, 1, 53) };
        let dns = sockets.add(dns::Socket::new(&[server], vec![]));
        let mut ic = icmp::Socket::new(
            icmp::PacketBuffer::new(vec![icmp::PacketMetadata::EMPTY; 2], vec![0u8; 256]),
            icmp::PacketBuffer::new(vec![icmp::PacketMetadata::EMPTY; 2], vec![0u8; 256]),
        );
        ic.bind(icmp::Endpoint::Ident(0x1234)).unwrap();
        let icmp = sockets.add(ic);
        let raw = sockets.add(raw::Socket::new(
            Some(smoltcp::wire::IpVersion::Ipv4),
            Some(smoltcp::wire::IpProtocol::Unknown(253)),
            raw::PacketBuffer::new(vec![raw::PacketMetadata::EMPTY; 2], vec![0u8; 256]),
            raw::PacketBuffer::new(vec![raw::PacketMetadata::EMPTY; 2], vec![0u8; 256]),
        ));
        let tcp = sockets.add(tcp::Socket::new(tcp::SocketBuffer::new(vec![0u8; 64]), tcp::SocketBuffer::new(vec![0u8; 64])));
        if cfg.dhcp {
            sockets.add(dhcpv4::Socket::new());
        }
        let mut p = P2 { cfg: cfg.clone(), iface, dev, sockets, udp, dns, icmp, raw, tcp, now: 0, hist: vec![], last_poll_quiet: false, probes: 0, last_dhcp: None };
        // initial poll(s)
        for _ in 0..4 {
            p.poll();
            match p.poll_at() {
                Some(d) if d <= p.now => continue,
                _ => break,
            }
        }
        p
    }
    fn enabled(&self) -> Vec<(P2Ev, u32)> {
        if self.cfg.served {
            // a small alphabet of its own, so that a whole acquire / renew / rebind / refuse
            // history fits the depth bound
            let mut v = vec![(P2Ev::Tick, 0), (P2Ev::Plus(500_000), 0), (P2Ev::Plus(LONG_SLEEP_US), 0), (P2Ev::UdpToResolved, 0)];
            if self.last_dhcp.is_some() {
                v.push((P2Ev::DhcpAnswer { lease_s: 1000 }, 0));
                v.push((P2Ev::DhcpAnswer { lease_s: 60 }, 0));
                v.push((P2Ev::DhcpAnswerTimers { lease_s: 100, t1_s: 60, t2_s: 30 }, 0));
                v.push((P2Ev::DhcpAnswerTimers { lease_s: 100, t1_s: 30, t2_s: 60 }, 0));
                v.push((P2Ev::DhcpAnswerTimers { lease_s: 100, t1_s: 50, t2_s: 100 }, 0));
                v.push((P2Ev::DhcpNak, 0));
            }
            return v;
        }
        let mut v = vec![
            (P2Ev::Tick, 0),
            (P2Ev::Plus(500_000), 0),
            (P2Ev::Plus(61_000_000), 0),
            (P2Ev::Plus(LONG_SLEEP_US), 0),
            (P2Ev::UdpToUnresolved, 0),
            (P2Ev::UdpToResolved, 0),
            (P2Ev::UdpEmptyToUnresolved, 0),
            (P2Ev::UdpBig, 0),
            (P2Ev::DnsQuery, 0),
            (P2Ev::ArpReplyFromPeer, 0),
        ];
        if self.cfg.throttle {
            v = vec![
                (P2Ev::Tick, 0),
                (P2Ev::Plus(500_000), 0),
                (P2Ev::UdpToResolved, 0),
                (P2Ev::UdpEmptyToResolved, 0),
                (P2Ev::UdpBig, 0),
                (P2Ev::UdpBigOneFrame, 0),
                (P2Ev::RawToPeer, 0),
                (P2Ev::ArpReplyFromPeer, 0),
                (if self.dev.tx_budget.is_none() { P2Ev::Hold } else { P2Ev::Release }, 0),
            ];
        }
        if self.cfg.dnsq {
            v = vec![
                (P2Ev::Tick, 0),
                (P2Ev::Plus(500_000), 0),
                (P2Ev::Plus(61_000_000), 0),
                (P2Ev::Plus(LONG_SLEEP_US), 0),
                (P2Ev::DnsQuery, 0),
                (P2Ev::DnsQueryB, 0),
                (P2Ev::DnsQueryLocal, 0),
                (P2Ev::ArpReplyFromPeer, 0),
                (P2Ev::UdpToResolved, 0),
            ];
        }
        if self.cfg.more {
            v = vec![
                (P2Ev::Tick, 0),
                (P2Ev::Plus(500_000), 0),
                (P2Ev::Plus(LONG_SLEEP_US), 0),
                (P2Ev::UdpToUnresolved, 0),
                (P2Ev::ArpReplyFromPeer, 0),
                (P2Ev::UdpToUnresolvedV6, 0),
                (P2Ev::IcmpToUnresolved, 0),
                (P2Ev::RawToPeer, 0),
            ];
            if self.cfg.no_v4 {
                v.push((P2Ev::UdpToResolved, 0));
                v.push((P2Ev::UdpTwoToResolved, 0));
                v.push((P2Ev::IcmpTwoToV4, 0));
                // the name server is an IPv4 host: no source address for the query
                v.push((P2Ev::DnsQuery, 0));
            }
            v.push((P2Ev::RawTwoWrongProto, 0));
            match self.sockets.get::<tcp::Socket>(self.tcp).state() {
                tcp::State::Closed => v.push((P2Ev::TcpConnectPeer, 0)),
                _ => v.push((P2Ev::TcpAbort, 0)),
            }
        }
        if self.cfg.slaac {
            v.push((P2Ev::RouterAdvert { lifetime_s: 30, prefix: true }, 0));
            v.push((P2Ev::RouterAdvert { lifetime_s: 0, prefix: false }, 0));
        }
        v
    }
    fn apply(&mut self, ev: &P2Ev, out: &mut Vec<Viol>) {
        self.apply_inner(ev);
        self.hist.push(ev.clone());
        let t = self.now;
        let d = self.poll_at();
        let ctx = format!("cfg {} after {:?}", self.cfg.name, ev);
        // (B) only on a device that accepts frames (the statement's proviso)
        if self.last_poll_quiet && self.dev.tx_budget.is_none() {
            if let Some(dd) = d {
                if dd <= t {
                    let cause = self.cause();
                    out.push(Viol::new(
                        format!("C13/spin/iface{}/{}", if self.cfg.slaac { "+slaac" } else { "" }, cause),
                        format!("{}: the poll at t={}us neither received nor transmitted a frame, yet poll_at = {}us <= t", ctx, t, dd),
                    ));
                    return;
                }
            }
        }
        // (A)
        for (p, kind) in probe_instants(t, d) {
            let mut f = P2::new(&self.cfg);
            for e in &self.hist {
                f.apply_inner(e);
            }
            f.now = p;
            let (_rx, tx) = f.poll();
            self.probes += 1;
            if tx > 0 {
                let cause = self.cause();
                out.push(Viol::new(
                    format!("C13/early-poll-transmits/iface{}/{}/{}", if self.cfg.slaac { "+slaac" } else { "" }, cause, if d.is_none() { "deadline-none" } else { "before-deadline" }),
                    format!("{}: poll_at = {:?} at t={}us, but a poll at p={}us ({}) with no new frame and no socket call transmitted {} frame(s)", ctx, d, t, p, kind, tx),
                ));
                break;
            }
        }
    }
    fn fingerprint(&self) -> u128 {
        fp128(&format!("{:?}|{}|{}|{:?}", self.sockets, self.iface.verif_digest(), self.now, (self.last_dhcp, self.dev.tx_budget)))
    }
    fn outcome(&self) -> String {
        String::new()
    }
}

impl P2 {
    /// which component has something pending (names the violation; never establishes one)
    fn cause(&self) -> String {
        let d = self.iface.verif_digest();
        let mut c = vec![];
        if !d.contains("frag[len=0 ") {
            c.push("fragments-pending");
        }
        let u = self.sockets.get::<udp::Socket>(self.udp);
        if u.send_queue() > 0 {
            c.push("udp-queued");
        }
        if format!("{:?}", self.sockets.get::<dns::Socket>(self.dns)).contains("Pending") {
            c.push("dns-pending");
        }
        if self.sockets.get::<icmp::Socket>(self.icmp).send_queue() > 0 {
            c.push("icmp-queued");
        }
        if self.sockets.get::<raw::Socket>(self.raw).send_queue() > 0 {
            c.push("raw-queued");
        }
        if self.cfg.dhcp {
            c.push("dhcp");
        }
        if c.is_empty() {
            c.push("idle");
        }
        c.join("+")
    }
}

pub fn run(tier: Tier) -> i32 {
    let mut rep = Report::new("C13", tier);
    let lim = Limits { max_states: 50_000_000, max_wall_s: if tier == Tier::Quick { 120.0 } else { 1800.0 } };
    for (cfg, k) in p1_configs(tier) {
        let mut samples = vec![];
        let mut found = vec![];
        let t0 = std::time::Instant::now();
        match devbound::<P1>("pollat-tcp2", &cfg, k, 2000, &lim, &mut found, &mut samples) {
            Ok(st) => {
                eprintln!("pollat tcp2 cfg={} k<={} runs={} wall={:.1}s", cfg.name, k, st.runs, t0.elapsed().as_secs_f64());
                rep.absorb(&format!("tcp2 states cfg={} k<={} (5 probe replays per side per state)", cfg.name, k), &st);
                if rep.samples.len() < 3 {
                    rep.samples.extend(samples.into_iter().take(1));
                }
            }
            Err(e) => rep.machinery_errors.push(format!("pollat tcp2 {}: {}", cfg.name, e)),
        }
        for f in found {
            if f.viol.sig.starts_with("MACHINERY") {
                rep.machinery_errors.push(format!("{}: {}", f.viol.sig, f.viol.detail));
            } else {
                rep.found.push(f);
            }
        }
    }
    let d = if tier == Tier::Quick { 5 } else { 7 };
    for cfg in p2_configs() {
        let d = if cfg.served { d + 2 } else if cfg.dnsq { d + 1 } else if cfg.more { d.min(6) } else { d };
        let mut samples = vec![];
        let mut found = vec![];
        let t0 = std::time::Instant::now();
        match bfs::<P2>("pollat-iface", &cfg, d, &lim, &mut found, &mut samples) {
            Ok(st) => {
                eprintln!("pollat iface cfg={} d<={} states={} wall={:.1}s", cfg.name, d, st.states, t0.elapsed().as_secs_f64());
                rep.absorb(&format!("interface states cfg={} depth<={}", cfg.name, d), &st);
                if rep.samples.len() < 6 {
                    rep.samples.extend(samples);
                }
            }
            Err(e) => rep.machinery_errors.push(format!("pollat iface {}: {}", cfg.name, e)),
        }
        for f in found {
            if f.viol.sig.starts_with("MACHINERY") {
                rep.machinery_errors.push(format!("{}: {}", f.viol.sig, f.viol.detail));
            } else {
                rep.found.push(f);
            }
        }
    }
    rep.cov("rule", json!("at every state reached (tcp2: all executions with <=k deviations; interface: BFS to depth d) the deadline D = poll_at(t) is probed by fresh replays that poll once at p in {t, t+1us, midway, D-1ms, D-1us} (D=None: t+1s, +1000s, +1e6s): nothing may be transmitted (MLD/IGMP reports excepted); a quiet poll must leave D None or > t"));
    rep.assumptions.push("IGMP/MLD report frames are filtered out (outside the claim); the device always accepts frames".into());
    rep.assumptions.push("interface alphabets: time moves by Tick (to the deadline), +0.5 s, +61 s and a sleep of 2^31 ms + 1 s (25 days, in every alphabet except the device-throttle one), each followed by one poll".into());
    rep.assumptions.push("DHCP configuration events are not applied to the interface in part 2 (they are application calls)".into());
    rep.finish()
}

pub fn replay(art: &serde_json::Value) -> i32 {
    let h = art["replay"]["harness"].as_str().unwrap_or("");
    let cfgs = art["replay"]["config"].as_str().unwrap_or("");
    if h == "pollat-tcp2" {
        for (c, _) in p1_configs(Tier::Thorough) {
            if format!("{:?}", c) == cfgs {
                return replay_artifact::<P1>(&c, art);
            }
        }
    } else {
        for c in p2_configs() {
            if format!("{:?}", c) == cfgs {
                return replay_artifact::<P2>(&c, art);
            }
        }
    }
    eprintln!("unknown configuration");
    2
}
