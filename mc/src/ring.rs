//! C14 — the real `RingBuffer<u32>` and `PacketBuffer<u32>` explored exhaustively against
//! a queue model (E1 BFS, replay based, abstract-state fingerprint).
//!
//! The code under test is generic in the element type and never inspects elements, so its
//! control flow depends only on (capacity, read position, length) [+ metadata shapes for
//! PacketBuffer]; that triple is the fingerprint.  Elements written carry fresh labels and
//! after EVERY transition the complete physical storage (read hook-free from the `{:?}`
//! image) is compared with the model, so a misplaced write is caught at the step that
//! makes it, from every reachable abstract state.

use crate::core::*;
use serde_json::json;
use smoltcp::storage::{PacketBuffer, PacketMetadata, RingBuffer};

// ---------------------------------------------------------------------------------------
// Debug-image parsing (hook-free observation of internal position and physical storage)
// ---------------------------------------------------------------------------------------

fn num_after(s: &str, key: &str, from: usize) -> Option<(usize, usize)> {
    let i = s[from..].find(key)? + from + key.len();
    let rest = &s[i..];
    let end = rest.find(|c: char| !c.is_ascii_digit()).unwrap_or(rest.len());
    Some((rest[..end].parse().ok()?, i + end))
}

struct RingImage {
    storage: Vec<u32>,
    read_at: usize,
    length: usize,
}
fn parse_ring_u32(s: &str) -> Option<RingImage> {
    // RingBuffer { storage: Owned([1, 2]), read_at: 0, length: 0 }
    let a = s.find('[')?;
    let b = s[a..].find(']')? + a;
    let inner = &s[a + 1..b];
    let storage: Vec<u32> = if inner.trim().is_empty() {
        vec![]
    } else {
        inner.split(',').map(|x| x.trim().parse::<u32>()).collect::<Result<_, _>>().ok()?
    };
    let (read_at, p) = num_after(s, "read_at: ", b)?;
    let (length, _) = num_after(s, "length: ", p)?;
    Some(RingImage { storage, read_at, length })
}

// ---------------------------------------------------------------------------------------
// RingBuffer harness
// ---------------------------------------------------------------------------------------

#[derive(Clone, Debug, PartialEq)]
pub enum ROp {
    EnqOneWith(bool),
    EnqOne,
    DeqOneWith(bool),
    DeqOne,
    EnqManyWith(usize),
    EnqMany(usize),
    EnqSlice(usize),
    DeqManyWith(usize),
    DeqMany(usize),
    DeqSlice(usize),
    GetUnalloc(usize, usize, bool),
    WriteUnalloc(usize, usize),
    EnqUnalloc(usize),
    GetAlloc(usize, usize),
    ReadAlloc(usize, usize),
    DeqAlloc(usize),
    Clear,
}

pub struct RingH {
    cap: usize,
    ring: RingBuffer<'static, u32>,
    q: Vec<Option<u32>>,  // allocated, logical order
    un: Vec<Option<u32>>, // unallocated, logical order after the allocated part
    next_label: u32,
    ops: std::sync::Arc<Vec<ROp>>,
}

fn ring_ops(cap: usize) -> Vec<ROp> {
    let m = cap + 1;
    let mut v = vec![
        ROp::EnqOneWith(true),
        ROp::EnqOneWith(false),
        ROp::EnqOne,
        ROp::DeqOneWith(true),
        ROp::DeqOneWith(false),
        ROp::DeqOne,
        ROp::Clear,
    ];
    for k in 0..=m {
        v.push(ROp::EnqManyWith(k));
        v.push(ROp::EnqMany(k));
        v.push(ROp::EnqSlice(k));
        v.push(ROp::DeqManyWith(k));
        v.push(ROp::DeqMany(k));
        v.push(ROp::DeqSlice(k));
        v.push(ROp::EnqUnalloc(k));
        v.push(ROp::DeqAlloc(k));
    }
    for o in 0..=m {
        for s in 0..=m {
            v.push(ROp::GetUnalloc(o, s, false));
            v.push(ROp::GetUnalloc(o, s, true));
            v.push(ROp::WriteUnalloc(o, s));
            v.push(ROp::GetAlloc(o, s));
            v.push(ROp::ReadAlloc(o, s));
        }
    }
    v
}

impl RingH {
    fn label(&mut self) -> u32 {
        self.next_label += 1;
        self.next_label
    }
    fn labels(&mut self, n: usize) -> Vec<u32> {
        (0..n).map(|_| self.label()).collect()
    }
    fn window(&self) -> usize {
        self.cap - self.q.len()
    }
    fn model_enqueue(&mut self, labels: &[u32]) {
        for &l in labels {
            self.q.push(Some(l));
        }
        self.un.drain(..labels.len());
    }
    fn model_dequeue(&mut self, k: usize) {
        self.q.drain(..k);
        for _ in 0..k {
            self.un.push(None);
        }
    }
    fn un_unknown(&mut self) {
        for x in self.un.iter_mut() {
            *x = None;
        }
    }
    fn v(out: &mut Vec<Viol>, op: &ROp, clause: &str, detail: String) {
        let kind = format!("{:?}", op);
        let kind = kind.split('(').next().unwrap_or("").to_string();
        out.push(Viol::new(format!("C14/ring/{}/{}", clause, kind), detail));
    }
    fn check_eq(expected: &[Option<u32>], got: &[u32]) -> bool {
        expected.len() == got.len() && expected.iter().zip(got).all(|(e, g)| e.map_or(true, |e| e == *g))
    }
    fn compare_all(&self, op: &ROp, out: &mut Vec<Viol>) {
        let img = format!("{:?}", self.ring);
        let Some(im) = parse_ring_u32(&img) else {
            out.push(Viol::new("MACHINERY/ring-debug-image-unparsable", img));
            return;
        };
        let ctx = || format!("after {:?}: image {} model q={:?} un={:?}", op, img, self.q, self.un);
        if self.ring.len() != self.q.len() || im.length != self.q.len() {
            Self::v(out, op, "len", ctx());
            return;
        }
        if self.ring.capacity() != self.cap || self.ring.window() != self.cap - self.q.len() {
            Self::v(out, op, "window-capacity", ctx());
        }
        if self.ring.is_empty() != self.q.is_empty() || self.ring.is_full() != (self.q.len() == self.cap) {
            Self::v(out, op, "empty-full", ctx());
        }
        let cw = self.ring.contiguous_window();
        let w = self.window();
        if cw > w || (w > 0 && cw == 0) {
            Self::v(out, op, "contiguous_window", format!("contiguous_window {} window {}; {}", cw, w, ctx()));
        }
        if self.cap > 0 {
            if im.read_at >= self.cap {
                Self::v(out, op, "read-position-out-of-range", ctx());
                return;
            }
            for (i, e) in self.q.iter().enumerate() {
                if let Some(e) = e {
                    if im.storage[(im.read_at + i) % self.cap] != *e {
                        Self::v(out, op, "allocated-content", ctx());
                        return;
                    }
                }
            }
            for (j, e) in self.un.iter().enumerate() {
                if let Some(e) = e {
                    if im.storage[(im.read_at + self.q.len() + j) % self.cap] != *e {
                        Self::v(out, op, "unallocated-content", ctx());
                        return;
                    }
                }
            }
        }
    }
}

#[derive(Clone, Debug)]
pub struct RingCfg {
    pub cap: usize,
}

impl Harness for RingH {
    type Cfg = RingCfg;
    type Ev = ROp;
    fn new(cfg: &RingCfg) -> Self {
        RingH {
            cap: cfg.cap,
            ring: RingBuffer::new(vec![0u32; cfg.cap]),
            q: vec![],
            un: vec![None; cfg.cap],
            next_label: 0,
            ops: std::sync::Arc::new(ring_ops(cfg.cap)),
        }
    }
    fn enabled(&self) -> Vec<(ROp, u32)> {
        self.ops.iter().map(|o| (o.clone(), 0)).collect()
    }
    fn fingerprint(&self) -> u128 {
        let im = parse_ring_u32(&format!("{:?}", self.ring));
        match im {
            Some(im) => {
                // the unallocated area may hold data written through the random-access
                // interface; operations behave the same whatever it holds, but the ORACLE can
                // only see a misplaced unallocated area where the model knows its content, so
                // states that differ in what is known there must not be merged (exact mask for
                // small rings, count beyond)
                let known: u64 = if self.cap <= 10 {
                    self.un.iter().enumerate().fold(0u64, |m, (i, x)| if x.is_some() { m | (1 << i) } else { m })
                } else {
                    1000 + self.un.iter().filter(|x| x.is_some()).count() as u64
                };
                fp128(&(self.cap, im.read_at, im.length, self.q.len(), known))
            }
            None => 0,
        }
    }
    fn outcome(&self) -> String {
        format!("len{}", self.q.len())
    }
    fn apply(&mut self, op: &ROp, out: &mut Vec<Viol>) {
        let len = self.q.len();
        let win = self.window();
        match *op {
            ROp::EnqOneWith(accept) => {
                let l = self.label();
                let r = self.ring.enqueue_one_with(|x| {
                    if accept {
                        *x = l;
                        Ok(())
                    } else {
                        Err(())
                    }
                });
                match r {
                    Err(_) => {
                        if win > 0 {
                            Self::v(out, op, "full-but-has-room", format!("window {}", win));
                        }
                    }
                    Ok(res) => {
                        if win == 0 {
                            Self::v(out, op, "accepted-beyond-capacity", String::new());
                        }
                        if res.is_ok() != accept {
                            Self::v(out, op, "callback-result-altered", String::new());
                        }
                        if accept && win > 0 {
                            self.model_enqueue(&[l]);
                        } else if win > 0 {
                            // the callback saw the slot but declined: content of un[0] unchanged
                        }
                    }
                }
            }
            ROp::EnqOne => {
                let l = self.label();
                match self.ring.enqueue_one() {
                    Ok(x) => {
                        *x = l;
                        if win == 0 {
                            Self::v(out, op, "accepted-beyond-capacity", String::new());
                        } else {
                            self.model_enqueue(&[l]);
                        }
                    }
                    Err(_) => {
                        if win > 0 {
                            Self::v(out, op, "full-but-has-room", format!("window {}", win));
                        }
                    }
                }
            }
            ROp::DeqOneWith(accept) => {
                let exp = self.q.first().cloned();
                let r = self.ring.dequeue_one_with(|x| if accept { Ok(*x) } else { Err(*x) });
                match r {
                    Err(_) => {
                        if len > 0 {
                            Self::v(out, op, "empty-but-has-elements", String::new());
                        }
                    }
                    Ok(res) => {
                        if len == 0 {
                            Self::v(out, op, "dequeued-from-empty", String::new());
                        } else {
                            let got = match res {
                                Ok(x) | Err(x) => x,
                            };
                            if res.is_ok() != accept {
                                Self::v(out, op, "callback-result-altered", String::new());
                            }
                            if let Some(Some(e)) = exp {
                                if e != got {
                                    Self::v(out, op, "wrong-element", format!("expected {} got {}", e, got));
                                }
                            }
                            if accept {
                                self.model_dequeue(1);
                            }
                        }
                    }
                }
            }
            ROp::DeqOne => {
                let exp = self.q.first().cloned();
                match self.ring.dequeue_one() {
                    Ok(x) => {
                        let got = *x;
                        if len == 0 {
                            Self::v(out, op, "dequeued-from-empty", String::new());
                        } else {
                            if let Some(Some(e)) = exp {
                                if e != got {
                                    Self::v(out, op, "wrong-element", format!("expected {} got {}", e, got));
                                }
                            }
                            self.model_dequeue(1);
                        }
                    }
                    Err(_) => {
                        if len > 0 {
                            Self::v(out, op, "empty-but-has-elements", String::new());
                        }
                    }
                }
            }
            ROp::EnqManyWith(k) => {
                let labels = self.labels(k);
                let mut given = 0;
                let (n, ()) = self.ring.enqueue_many_with(|buf| {
                    given = buf.len();
                    if k <= buf.len() {
                        buf[..k].copy_from_slice(&labels);
                        (k, ())
                    } else {
                        (0, ())
                    }
                });
                if given > win || (win > 0 && given == 0) {
                    Self::v(out, op, "slice-size", format!("callback given {} elements, window {}", given, win));
                }
                if len == 0 {
                    self.un_unknown();
                }
                if n > 0 {
                    if n != k {
                        Self::v(out, op, "count", format!("returned {} for {}", n, k));
                    }
                    if n <= win {
                        self.model_enqueue(&labels[..n]);
                    }
                }
            }
            ROp::EnqMany(size) => {
                let labels = self.labels(size);
                let s = self.ring.enqueue_many(size);
                let m = s.len();
                if m <= labels.len() {
                    s.copy_from_slice(&labels[..m]);
                }
                if m > size.min(win) || (size > 0 && win > 0 && m == 0) {
                    Self::v(out, op, "slice-size", format!("got {} for size {} window {}", m, size, win));
                } else {
                    if len == 0 {
                        self.un_unknown();
                    }
                    self.model_enqueue(&labels[..m]);
                }
            }
            ROp::EnqSlice(n) => {
                let labels = self.labels(n);
                let m = self.ring.enqueue_slice(&labels);
                if m != n.min(win) {
                    Self::v(out, op, "count", format!("enqueued {} of {} with window {}", m, n, win));
                    if m <= win {
                        self.model_enqueue(&labels[..m.min(n)]);
                    }
                } else {
                    if len == 0 {
                        self.un_unknown();
                    }
                    self.model_enqueue(&labels[..m]);
                }
            }
            ROp::DeqManyWith(k) => {
                let mut got: Vec<u32> = vec![];
                let (n, ()) = self.ring.dequeue_many_with(|buf| {
                    got = buf.to_vec();
                    if k <= buf.len() {
                        (k, ())
                    } else {
                        (0, ())
                    }
                });
                if got.len() > len || (len > 0 && got.is_empty()) {
                    Self::v(out, op, "slice-size", format!("callback given {} elements, len {}", got.len(), len));
                } else {
                    if !Self::check_eq(&self.q[..got.len()], &got) {
                        Self::v(out, op, "wrong-element", format!("expected {:?} got {:?}", &self.q[..got.len()], got));
                    }
                    if n > 0 && n == k {
                        self.model_dequeue(n);
                    } else if n != 0 {
                        Self::v(out, op, "count", format!("returned {} for {}", n, k));
                    }
                }
            }
            ROp::DeqMany(size) => {
                let got = self.ring.dequeue_many(size).to_vec();
                let m = got.len();
                if m > size.min(len) || (size > 0 && len > 0 && m == 0) {
                    Self::v(out, op, "slice-size", format!("got {} for size {} len {}", m, size, len));
                } else {
                    if !Self::check_eq(&self.q[..m], &got) {
                        Self::v(out, op, "wrong-element", format!("expected {:?} got {:?}", &self.q[..m], got));
                    }
                    self.model_dequeue(m);
                }
            }
            ROp::DeqSlice(n) => {
                let mut buf = vec![0u32; n];
                let m = self.ring.dequeue_slice(&mut buf);
                if m != n.min(len) {
                    Self::v(out, op, "count", format!("dequeued {} of {} with len {}", m, n, len));
                    if m <= len {
                        self.model_dequeue(m);
                    }
                } else {
                    if !Self::check_eq(&self.q[..m], &buf[..m]) {
                        Self::v(out, op, "wrong-element", format!("expected {:?} got {:?}", &self.q[..m], &buf[..m]));
                    }
                    self.model_dequeue(m);
                }
            }
            ROp::GetUnalloc(o, s, write) => {
                let labels = self.labels(s);
                let sl = self.ring.get_unallocated(o, s);
                let m = sl.len();
                let got = sl.to_vec();
                let lim = if o <= win { s.min(win - o) } else { 0 };
                if m > lim || (lim > 0 && m == 0) {
                    Self::v(out, op, "slice-size", format!("got {} for offset {} size {} window {}", m, o, s, win));
                } else {
                    if !Self::check_eq(&self.un[o.min(win)..o.min(win) + m], &got) {
                        Self::v(out, op, "wrong-element", format!("expected {:?} got {:?}", &self.un[o..o + m], got));
                    }
                    if write {
                        sl.copy_from_slice(&labels[..m]);
                        for i in 0..m {
                            self.un[o + i] = Some(labels[i]);
                        }
                    }
                }
            }
            ROp::WriteUnalloc(o, n) => {
                let labels = self.labels(n);
                let m = self.ring.write_unallocated(o, &labels);
                let lim = if o <= win { n.min(win - o) } else { 0 };
                if m != lim {
                    Self::v(out, op, "count", format!("wrote {} expected {} (offset {} n {} window {})", m, lim, o, n, win));
                } else {
                    for i in 0..m {
                        self.un[o + i] = Some(labels[i]);
                    }
                }
            }
            ROp::EnqUnalloc(c) => {
                if c <= win {
                    self.ring.enqueue_unallocated(c);
                    let moved: Vec<Option<u32>> = self.un.drain(..c).collect();
                    self.q.extend(moved);
                } // else: documented panic, not exercised
            }
            ROp::GetAlloc(o, s) => {
                let got = self.ring.get_allocated(o, s).to_vec();
                let m = got.len();
                let lim = if o <= len { s.min(len - o) } else { 0 };
                if m > lim || (lim > 0 && m == 0) {
                    Self::v(out, op, "slice-size", format!("got {} for offset {} size {} len {}", m, o, s, len));
                } else if !Self::check_eq(&self.q[o.min(len)..o.min(len) + m], &got) {
                    Self::v(out, op, "wrong-element", format!("expected {:?} got {:?}", &self.q[o..o + m], got));
                }
            }
            ROp::ReadAlloc(o, n) => {
                let mut buf = vec![0u32; n];
                let m = self.ring.read_allocated(o, &mut buf);
                let lim = if o <= len { n.min(len - o) } else { 0 };
                if m != lim {
                    Self::v(out, op, "count", format!("read {} expected {} (offset {} n {} len {})", m, lim, o, n, len));
                } else if !Self::check_eq(&self.q[o.min(len)..o.min(len) + m], &buf[..m]) {
                    Self::v(out, op, "wrong-element", format!("expected {:?} got {:?}", &self.q[o..o + m], &buf[..m]));
                }
            }
            ROp::DeqAlloc(c) => {
                if c <= len {
                    self.ring.dequeue_allocated(c);
                    self.model_dequeue(c);
                }
            }
            ROp::Clear => {
                self.ring.clear();
                self.q.clear();
                self.un = vec![None; self.cap];
            }
        }
        if out.is_empty() {
            self.compare_all(op, out);
        }
    }
}

// ---------------------------------------------------------------------------------------
// PacketBuffer harness
// ---------------------------------------------------------------------------------------

#[derive(Clone, Debug, PartialEq)]
pub enum POp {
    Enqueue(usize),
    /// enqueue_with_infallible(max_size, f -> used) ; used encoded as 0: 0, 1: 1, 2: max/2, 3: max
    EnqueueWith(usize, u8),
    Dequeue,
    DequeueWith(bool),
    Peek,
    /// crate-private `reset()` (what socket close() calls), through the `_verif` hook
    Reset,
}

#[derive(Clone, Debug)]
pub struct PbCfg {
    pub slots: usize,
    pub bytes: usize,
}

pub struct PbH {
    cfg: PbCfg,
    pb: PacketBuffer<'static, u32>,
    q: std::collections::VecDeque<(u32, Vec<u8>)>,
    next_label: u32,
    ops: std::sync::Arc<Vec<POp>>,
}

struct PbImage {
    meta_read_at: usize,
    meta_len: usize,
    metas: Vec<(usize, Option<u32>)>,
    pay_read_at: usize,
    pay_len: usize,
    payload: Vec<u8>,
}
fn parse_pb(s: &str) -> Option<PbImage> {
    let split = s.find("payload_ring")?;
    let (ms, ps) = s.split_at(split);
    let mut metas = vec![];
    let mut pos = 0;
    while let Some(i) = ms[pos..].find("PacketMetadata { size: ") {
        let (size, p) = num_after(ms, "PacketMetadata { size: ", pos + i)?;
        let rest = &ms[p..];
        let hdr = rest.strip_prefix(", header: ")?;
        let h = if hdr.starts_with("None") {
            None
        } else {
            let (n, _) = num_after(hdr, "Some(", 0)?;
            Some(n as u32)
        };
        metas.push((size, h));
        pos = p;
    }
    // the metadata ring's own read_at/length follow its storage list
    let close = ms.rfind(']')?;
    let (meta_read_at, p) = num_after(ms, "read_at: ", close)?;
    let (meta_len, _) = num_after(ms, "length: ", p)?;
    let close = ps.rfind(']')?;
    let open = ps.find('[')?;
    let inner = &ps[open + 1..close];
    let payload: Vec<u8> = if inner.trim().is_empty() {
        vec![]
    } else {
        inner.split(',').map(|x| x.trim().parse::<u8>()).collect::<Result<_, _>>().ok()?
    };
    let (pay_read_at, p) = num_after(ps, "read_at: ", close)?;
    let (pay_len, _) = num_after(ps, "length: ", p)?;
    Some(PbImage { meta_read_at, meta_len, metas, pay_read_at, pay_len, payload })
}

fn pb_ops(cfg: &PbCfg) -> Vec<POp> {
    let mut v = vec![POp::Dequeue, POp::DequeueWith(true), POp::DequeueWith(false), POp::Peek, POp::Reset];
    for s in 0..=cfg.bytes + 1 {
        v.push(POp::Enqueue(s));
        for u in 0..4u8 {
            v.push(POp::EnqueueWith(s, u));
        }
    }
    v
}

impl PbH {
    fn v(out: &mut Vec<Viol>, op: &POp, clause: &str, detail: String) {
        let kind = match op {
            POp::Enqueue(_) => "enqueue",
            POp::EnqueueWith(..) => "enqueue_with_infallible",
            POp::Dequeue => "dequeue",
            POp::DequeueWith(_) => "dequeue_with",
            POp::Peek => "peek",
            POp::Reset => "reset",
        };
        out.push(Viol::new(format!("C14/pb/{}/{}", clause, kind), detail));
    }
    fn payload(&mut self, n: usize) -> Vec<u8> {
        let base = self.next_label;
        (0..n).map(|i| ((base as usize * 7 + i * 3) % 251 + 1) as u8).collect()
    }
    fn model_bytes(&self) -> usize {
        self.q.iter().map(|p| p.1.len()).sum()
    }
    /// Oracle for an enqueue attempt of `size` bytes (the size that stays queued).
    fn enqueue_verdict(&self, op: &POp, reserve: usize, accepted: bool, out: &mut Vec<Viol>) {
        let ctx = || format!("{:?} with {} packets / {} bytes queued, capacity {} slots / {} bytes; image {:?}", op, self.q.len(), self.model_bytes(), self.cfg.slots, self.cfg.bytes, self.pb);
        if accepted {
            if self.q.len() + 1 > self.cfg.slots || self.model_bytes() + reserve > self.cfg.bytes {
                Self::v(out, op, "accepted-beyond-capacity", ctx());
            }
        } else if self.q.is_empty() && reserve <= self.cfg.bytes && self.cfg.slots >= 1 {
            Self::v(out, op, "empty-buffer-refuses", ctx());
        }
    }
    fn compare_all(&self, op: &POp, out: &mut Vec<Viol>) {
        if self.pb.is_empty() != self.q.is_empty() {
            Self::v(out, op, "is_empty", format!("is_empty {} model {} packets", self.pb.is_empty(), self.q.len()));
        }
        if self.pb.packet_capacity() != self.cfg.slots || self.pb.payload_capacity() != self.cfg.bytes {
            Self::v(out, op, "capacity", String::new());
        }
        if self.pb.payload_bytes_count() > self.cfg.bytes || self.pb.payload_bytes_count() < self.model_bytes() {
            Self::v(out, op, "payload_bytes_count", format!("{} vs model {}", self.pb.payload_bytes_count(), self.model_bytes()));
        }
        if self.q.len() == self.cfg.slots && !self.pb.is_full() {
            Self::v(out, op, "is_full", "all metadata slots hold packets but is_full() is false".into());
        }
        // complete queued content via the image: walk allocated metadata entries
        let img = format!("{:?}", self.pb);
        let Some(im) = parse_pb(&img) else {
            out.push(Viol::new("MACHINERY/pb-debug-image-unparsable", img));
            return;
        };
        if self.cfg.slots > 0 {
            let mut hdrs = vec![];
            let mut pos = im.pay_read_at;
            let mut total = 0;
            for i in 0..im.meta_len {
                let (size, h) = im.metas[(im.meta_read_at + i) % self.cfg.slots];
                if let Some(h) = h {
                    // payloads must be contiguous in the physical storage
                    let bytes: Option<Vec<u8>> = im.payload.get(pos..pos + size).map(|b| b.to_vec());
                    hdrs.push((h, bytes));
                }
                total += size;
                pos += size;
                if self.cfg.bytes > 0 && pos >= self.cfg.bytes {
                    pos -= self.cfg.bytes;
                }
            }
            let model: Vec<(u32, Option<Vec<u8>>)> = self.q.iter().map(|p| (p.0, Some(p.1.clone()))).collect();
            if hdrs != model {
                Self::v(out, op, "queued-packets-differ", format!("image {:?} model {:?}", hdrs, model));
            }
            if total != im.pay_len {
                Self::v(out, op, "metadata-payload-accounting", format!("metadata sizes sum {} but payload ring length {}", total, im.pay_len));
            }
        }
    }
}

impl Harness for PbH {
    type Cfg = PbCfg;
    type Ev = POp;
    fn new(cfg: &PbCfg) -> Self {
        PbH {
            cfg: cfg.clone(),
            pb: PacketBuffer::new(vec![PacketMetadata::EMPTY; cfg.slots], vec![0u8; cfg.bytes]),
            q: Default::default(),
            next_label: 0,
            ops: std::sync::Arc::new(pb_ops(cfg)),
        }
    }
    fn enabled(&self) -> Vec<(POp, u32)> {
        self.ops.iter().map(|o| (o.clone(), 0)).collect()
    }
    fn fingerprint(&self) -> u128 {
        let Some(im) = parse_pb(&format!("{:?}", self.pb)) else { return 0 };
        let mut shape = vec![];
        if self.cfg.slots > 0 {
            for i in 0..im.meta_len {
                let (size, h) = im.metas[(im.meta_read_at + i) % self.cfg.slots];
                shape.push((size, h.is_some()));
            }
        }
        // slots that hold no packet keep whatever header their last occupant left behind
        // (dequeue() takes it out, dequeue_with() does not): that residue is state
        let residue: Vec<bool> = im.metas.iter().map(|m| m.1.is_some()).collect();
        fp128(&(self.cfg.slots, self.cfg.bytes, im.meta_read_at, im.meta_len, shape, im.pay_read_at, im.pay_len, residue))
    }
    fn outcome(&self) -> String {
        format!("pk{}", self.q.len())
    }
    fn apply(&mut self, op: &POp, out: &mut Vec<Viol>) {
        self.next_label += 1;
        let label = self.next_label;
        let before: Vec<(u32, Vec<u8>)> = self.q.iter().cloned().collect();
        match *op {
            POp::Enqueue(size) => {
                let data = self.payload(size);
                let r = self.pb.enqueue(size, label);
                match r {
                    Ok(buf) => {
                        if buf.len() != size {
                            Self::v(out, op, "payload-size", format!("asked {} got {}", size, buf.len()));
                        } else {
                            buf.copy_from_slice(&data);
                        }
                        self.enqueue_verdict(op, size, true, out);
                        self.q.push_back((label, data));
                    }
                    Err(_) => self.enqueue_verdict(op, size, false, out),
                }
            }
            POp::EnqueueWith(max, u) => {
                let used = match u {
                    0 => 0,
                    1 => 1.min(max),
                    2 => max / 2,
                    _ => max,
                };
                let data = self.payload(used);
                let mut given = usize::MAX;
                let r = self.pb.enqueue_with_infallible(max, label, |buf| {
                    given = buf.len();
                    if used <= buf.len() {
                        buf[..used].copy_from_slice(&data);
                    }
                    used
                });
                match r {
                    Ok(n) => {
                        if given != max {
                            Self::v(out, op, "payload-size", format!("asked max {} callback given {}", max, given));
                        }
                        if n != used {
                            Self::v(out, op, "count", format!("returned {} expected {}", n, used));
                        }
                        self.enqueue_verdict(op, used, true, out);
                        self.q.push_back((label, data));
                    }
                    Err(_) => {
                        if given != usize::MAX {
                            Self::v(out, op, "callback-called-on-refusal", String::new());
                        }
                        self.enqueue_verdict(op, max, false, out)
                    }
                }
            }
            POp::Dequeue => {
                let exp = self.q.front().cloned();
                match self.pb.dequeue() {
                    Ok((h, buf)) => match exp {
                        None => Self::v(out, op, "dequeued-from-empty", String::new()),
                        Some((eh, ed)) => {
                            if h != eh || buf != &ed[..] {
                                Self::v(out, op, "wrong-packet", format!("expected ({},{:?}) got ({},{:?})", eh, ed, h, buf));
                            }
                            self.q.pop_front();
                        }
                    },
                    Err(_) => {
                        if exp.is_some() {
                            Self::v(out, op, "empty-but-has-packets", String::new());
                        }
                    }
                }
            }
            POp::DequeueWith(accept) => {
                let exp = self.q.front().cloned();
                let r = self.pb.dequeue_with(|h, buf| if accept { Ok((*h, buf.to_vec())) } else { Err((*h, buf.to_vec())) });
                match r {
                    Ok(res) => match exp {
                        None => Self::v(out, op, "dequeued-from-empty", String::new()),
                        Some((eh, ed)) => {
                            if res.is_ok() != accept {
                                Self::v(out, op, "callback-result-altered", String::new());
                            }
                            let (h, buf) = match res {
                                Ok(x) | Err(x) => x,
                            };
                            if h != eh || buf != ed {
                                Self::v(out, op, "wrong-packet", format!("expected ({},{:?}) got ({},{:?})", eh, ed, h, buf));
                            }
                            if accept {
                                self.q.pop_front();
                            }
                        }
                    },
                    Err(_) => {
                        if exp.is_some() {
                            Self::v(out, op, "empty-but-has-packets", String::new());
                        }
                    }
                }
            }
            POp::Reset => {
                // afterwards the buffer is empty; "an empty packet buffer accepts any packet up
                // to its payload capacity" is then judged by the enqueue verdicts that follow
                self.pb.verif_reset();
                self.q.clear();
            }
            POp::Peek => {
                let exp = self.q.front().cloned();
                match self.pb.peek() {
                    Ok((h, buf)) => match exp {
                        None => Self::v(out, op, "dequeued-from-empty", String::new()),
                        Some((eh, ed)) => {
                            if *h != eh || buf != &ed[..] {
                                Self::v(out, op, "wrong-packet", format!("expected ({},{:?}) got ({},{:?})", eh, ed, h, buf));
                            }
                        }
                    },
                    Err(_) => {
                        if exp.is_some() {
                            Self::v(out, op, "empty-but-has-packets", String::new());
                        }
                    }
                }
            }
        }
        let _ = before;
        if out.is_empty() {
            self.compare_all(op, out);
        }
    }
}

/// Drain check: after the history, dequeue everything and compare with the model — run on
/// every BFS state via `finish` would be costly; instead every transition is followed by the
/// image comparison above and the dequeue operations themselves compare payload bytes.

pub fn run(tier: Tier) -> i32 {
    let mut rep = Report::new("C14", tier);
    rep.assumptions.push("reference = VecDeque-style queue model (plus known contents of the unallocated area); trusted".into());
    rep.assumptions.push("abstraction: code is generic in T and never inspects elements, so (capacity, read position, length[, metadata shapes]) determines control flow; contents carry fresh labels and the full physical storage is compared after every transition".into());
    rep.assumptions.push("documented panics (callback returning more than offered, enqueue_unallocated/dequeue_allocated beyond bounds) are not exercised".into());
    // On the unchanged tree every configuration reaches its fixpoint far below these caps; they
    // exist for trees on which implementation and model diverge, where the abstract state space
    // need not be finite any more (what was found up to the cap is reported, exhaustive=false).
    let lim = if tier == Tier::Quick { Limits { max_states: 2_000_000, max_wall_s: 60.0 } } else { Limits { max_states: 20_000_000, max_wall_s: 900.0 } };
    let maxcap = if tier == Tier::Quick { 8 } else { 24 };
    for cap in 0..=maxcap {
        let cfg = RingCfg { cap };
        let mut samples = vec![];
        match bfs::<RingH>("ring", &cfg, 10_000, &lim, &mut rep.found, &mut samples) {
            Ok(st) => {
                rep.absorb(&format!("RingBuffer cap={}", cap), &st);
                if cap == maxcap || cap == 3 {
                    rep.samples.extend(samples);
                }
            }
            Err(e) => rep.machinery_errors.push(e),
        }
    }
    let (ms, mb) = if tier == Tier::Quick { (3, 8) } else { (4, 12) };
    for slots in 0..=ms {
        for bytes in 0..=mb {
            let cfg = PbCfg { slots, bytes };
            let mut samples = vec![];
            match bfs::<PbH>("pb", &cfg, 10_000, &lim, &mut rep.found, &mut samples) {
                Ok(st) => {
                    rep.absorb(&format!("PacketBuffer slots={} bytes={}", slots, bytes), &st);
                    if slots == ms && bytes == mb {
                        rep.samples.extend(samples);
                    }
                }
                Err(e) => rep.machinery_errors.push(e),
            }
        }
    }
    // keep the parts list short in the evidence
    rep.cov("rule", json!("BFS to fixpoint over abstract states of the real RingBuffer<u32>/PacketBuffer<u32>; from every state every public operation with every argument 0..=cap+1 is executed on the real code after replaying the state's history; oracle = queue model + complete physical-image comparison after each transition"));
    rep.finish()
}

pub fn replay(art: &serde_json::Value) -> i32 {
    let cfgs = art["replay"]["config"].as_str().unwrap_or("");
    let h = art["replay"]["harness"].as_str().unwrap_or("");
    if h == "ring" {
        let (cap, _) = num_after(cfgs, "cap: ", 0).unwrap_or((0, 0));
        replay_artifact::<RingH>(&RingCfg { cap }, art)
    } else {
        let (slots, p) = num_after(cfgs, "slots: ", 0).unwrap_or((0, 0));
        let (bytes, _) = num_after(cfgs, "bytes: ", p).unwrap_or((0, 0));
        replay_artifact::<PbH>(&PbCfg { slots, bytes }, art)
    }
}
