//! Scenarios (what is sent) and oracles (what must be observed) for C20.
//!
//! Oracle summary (all evaluated on REAL interfaces, see `world.rs`):
//!  * frame clause: every frame an 802.15.4 interface hands to its device is <= 125 octets
//!    (127 with the FCS smoltcp does not generate);
//!  * safety: everything the receiver's socket delivers is one of the datagrams the sender's
//!    socket accepted (payload bytes, source address, source port, destination address), each at
//!    most once -- for every size, order and duplication;
//!  * delivery: every accepted datagram whose uncompressed IPv6 size fits
//!    min(FRAGMENTATION_BUFFER_SIZE, REASSEMBLY_BUFFER_SIZE) is delivered exactly once, in order,
//!    when the frames arrive in the order they were sent;
//!  * same datagram: the IPv6 datagram the receiving interface reconstructs (seen by a raw socket:
//!    IPv6 header fields incl. hop limit, transport header, payload) equals the one sent; the
//!    expectation for that comes from running the SAME scenario over Medium::Ip (differential).

use super::world::*;
use crate::core::{last_panic_loc, panic_msg, panic_site};
use crate::sim::hex;
use serde_json::{json, Value};
use smoltcp::socket::{icmp, tcp};
use smoltcp::wire::{IpAddress, IpEndpoint, IpListenEndpoint, Ipv6Address};
use std::collections::{BTreeMap, BTreeSet};
use std::panic::{catch_unwind, AssertUnwindSafe};

pub const PORTS: [u16; 4] = [1234, 0xf012, 0xf0b7, 0xf0b0];
/// PORTS plus both ends of the 4-bit range (0xf0b0, 0xf0bf), both ends of the 8-bit range
/// (0xf000, 0xf0ff) and the values just outside (0xefff, 0xf100)
pub const PORTS_EDGE: [u16; 9] = [1234, 0xf012, 0xf0b7, 0xf0b0, 0xf0bf, 0xf000, 0xf0ff, 0xefff, 0xf100];
/// the canonical port pair of an NHC port mode (see `nhc_port_mode`)
pub fn canonical_ports(sport: u16, dport: u16) -> (u16, u16) {
    let b4 = |p: u16| (0xf0b0..=0xf0bf).contains(&p);
    let b8 = |p: u16| (0xf000..=0xf0ff).contains(&p);
    if b4(sport) && b4(dport) {
        (0xf0b7, 0xf0b1)
    } else if b8(sport) {
        (0xf012, 1234)
    } else if b8(dport) {
        (1234, 0xf012)
    } else {
        (1234, 1234)
    }
}
pub const HOP_LIMITS: [u8; 4] = [64, 1, 255, 7];

pub fn max_ipv6_len() -> usize {
    smoltcp::config::FRAGMENTATION_BUFFER_SIZE.min(smoltcp::config::REASSEMBLY_BUFFER_SIZE)
}
/// Is delivery DEMANDED for a datagram with `body` octets behind a compressed header of `ch`
/// octets and an uncompressed header of `uh` octets? The statement says "any payload size up to
/// the fragmentation buffer": the COMPRESSED datagram (what the sender stages in its
/// fragmentation buffer) must fit FRAGMENTATION_BUFFER_SIZE. The uncompressed size must fit the
/// 11-bit datagram_size field of RFC 4944 and the reassembler: this crate is built with `alloc`,
/// where the reassembly buffer grows on demand (REASSEMBLY_BUFFER_SIZE is its initial size).
pub fn delivery_demanded(ch: usize, uh: usize, body: usize) -> bool {
    ch + body <= smoltcp::config::FRAGMENTATION_BUFFER_SIZE && uh + body <= 2047
}

#[derive(Clone, Debug, PartialEq, Eq, PartialOrd, Ord)]
pub struct Scn {
    pub part: String,
    pub s_hw: HwKind,
    pub r_hw: HwKind,
    pub src: AddrClass,
    pub dst: AddrClass,
    pub pan: bool,
    pub mtu: usize,
    pub sport: u16,
    pub dport: u16,
    pub hl: u8,
    /// payload lengths of the datagrams sent back to back (TCP: [bytes S->R])
    pub lens: Vec<usize>,
    /// permutation part: the order (indices into the captured fragment list) delivered to a
    /// fresh receiver
    pub order: Vec<usize>,
    /// part "seq": the datagram sent (and polled to quiescence) BEFORE the one described by the
    /// fields above
    pub first: Option<Dgp>,
    /// octet the devices pre-fill every transmit buffer with
    pub fill: u8,
    /// part "hwchg": Interface::set_hardware_addr(changed_hw(kind)) on the sender after this many
    /// exchange rounds, while fragments are still pending
    pub hw_to: Option<HwKind>,
    pub chg_after: usize,
    /// sender's device takes one frame per poll (back-pressure keeps fragments pending)
    pub one_per_poll: bool,
    /// part "ingress": after `chg_after` rounds, while fragments of S's datagram are pending, S
    /// RECEIVES a datagram whose automatic reply needs fragmentation itself:
    /// 1 = echo request, 2 = UDP to a closed port; `stim_len` payload octets; sent by the peer R
    /// or (captured frames of) a third node T
    pub stim_kind: u8,
    pub stim_third: bool,
    pub stim_len: usize,
    /// S's device refuses every frame for this many rounds after the stimulus was queued (full
    /// back-pressure: nothing of S's datagram progresses while the stimulus arrives)
    pub block_rounds: usize,
}

/// parameters of one UDP datagram
#[derive(Clone, Debug, PartialEq, Eq, PartialOrd, Ord)]
pub struct Dgp {
    pub src: AddrClass,
    pub dst: AddrClass,
    pub sport: u16,
    pub dport: u16,
    pub hl: u8,
    pub len: usize,
}
impl Dgp {
    pub fn to_json(&self) -> Value {
        json!({"src": self.src.name(), "dst": self.dst.name(), "sport": self.sport, "dport": self.dport, "hl": self.hl, "len": self.len})
    }
    pub fn from_json(v: &Value) -> Option<Dgp> {
        if !v.is_object() {
            return None;
        }
        Some(Dgp {
            src: AddrClass::from_name(v["src"].as_str().unwrap_or("ll-hw")),
            dst: AddrClass::from_name(v["dst"].as_str().unwrap_or("ll-hw")),
            sport: v["sport"].as_u64().unwrap_or(1234) as u16,
            dport: v["dport"].as_u64().unwrap_or(1234) as u16,
            hl: v["hl"].as_u64().unwrap_or(64) as u8,
            len: v["len"].as_u64().unwrap_or(0) as usize,
        })
    }
}

pub const FILL: u8 = 0xa5;
/// local port of the second UDP socket in the "twosock" part
pub const SPORT2: u16 = 1235;

/// (802.15.4 MAC header, compressed IPv6(+UDP) header, uncompressed header, body octets that are
/// not payload) the sender is expected to produce. Used ONLY for stimulus selection (boundary
/// lengths, size classes) and for naming size classes in labels -- never as an oracle; the
/// evidence reports whether the predicted thresholds were observed.
#[allow(clippy::too_many_arguments)]
pub fn hdr_sizes(s_hw: HwKind, r_hw: HwKind, src: AddrClass, dst: AddrClass, sport: u16, dport: u16, hl: u8, proto: Proto) -> (usize, usize, usize, usize) {
    let l2 = |hw: HwKind| if hw == HwKind::Ext { 8 } else { 2 };
    let mac = 3 + 2 + if dst.is_mcast() { 2 } else { l2(r_hw) } + l2(s_hw);
    let a = |c: AddrClass| match c {
        AddrClass::LlHw => 0,
        AddrClass::Ll16 => 2,
        AddrClass::Ll64 => 8,
        AddrClass::Global | AddrClass::Ctx | AddrClass::McFull | AddrClass::LlWideA | AddrClass::LlWideB => 16,
        AddrClass::McAllNodes | AddrClass::Mc8 => 1,
        AddrClass::Mc32 => 4,
        AddrClass::Mc48 | AddrClass::McSolicited => 6,
        AddrClass::McK(k) if k >= 13 => 4,
        AddrClass::McK(k) if k >= 11 => 6,
        AddrClass::McK(_) => 16,
    };
    let hlb = if matches!(hl, 1 | 64 | 255) { 0 } else { 1 };
    let iphc = 2 + hlb + a(src) + a(dst);
    match proto {
        Proto::Udp => {
            let both4 = |p: u16| (0xf0b0..=0xf0bf).contains(&p);
            let any8 = |p: u16| (0xf000..=0xf0ff).contains(&p);
            let ports = if both4(sport) && both4(dport) {
                1
            } else if any8(sport) || any8(dport) {
                3
            } else {
                4
            };
            (mac, iphc + 3 + ports, 48, 0)
        }
        _ => (mac, iphc + 1, 40, 8),
    }
}
/// (largest unfragmented body, body octets in FRAG1, body octets per full FRAGN)
pub fn frag_plan(mac: usize, ch: usize, uh: usize) -> (i64, i64, i64) {
    let avail = 125usize.saturating_sub(mac);
    let diff = uh - ch.min(uh);
    let frag1 = ((avail.saturating_sub(4) + diff) / 8 * 8).saturating_sub(diff);
    let fragn = avail.saturating_sub(5) / 8 * 8;
    (avail as i64 - ch as i64, frag1 as i64 - ch as i64, fragn as i64)
}
/// payload lengths representing the size classes 1 frame / 2 frames / 3 frames
pub fn size_class_lens(s_hw: HwKind, r_hw: HwKind, d: &Dgp) -> [usize; 3] {
    let (mac, ch, uh, _) = hdr_sizes(s_hw, r_hw, d.src, d.dst, d.sport, d.dport, d.hl, Proto::Udp);
    let (t, p1, fn_) = frag_plan(mac, ch, uh);
    [10, (t + 8).max(11) as usize, (p1 + fn_ + 8).max(12) as usize]
}
pub fn size_class(s_hw: HwKind, r_hw: HwKind, d: &Dgp) -> &'static str {
    let (mac, ch, uh, _) = hdr_sizes(s_hw, r_hw, d.src, d.dst, d.sport, d.dport, d.hl, Proto::Udp);
    let (t, p1, fn_) = frag_plan(mac, ch, uh);
    let l = d.len as i64;
    if l <= t {
        "1-frame"
    } else if l <= p1 + fn_ {
        "2-frames"
    } else {
        "3+-frames"
    }
}

impl Scn {
    pub fn base(part: &str) -> Scn {
        Scn {
            part: part.into(),
            s_hw: HwKind::Ext,
            r_hw: HwKind::Ext,
            src: AddrClass::LlHw,
            dst: AddrClass::LlHw,
            pan: true,
            mtu: 1500,
            sport: 1234,
            dport: 1234,
            hl: 64,
            lens: vec![],
            order: vec![],
            first: None,
            fill: FILL,
            hw_to: None,
            chg_after: 0,
            one_per_poll: false,
            stim_kind: 0,
            stim_third: false,
            stim_len: 0,
            block_rounds: 0,
        }
    }
    /// parameters of the datagram described by the top-level fields (with payload length `len`)
    pub fn main_dg(&self, len: usize) -> Dgp {
        Dgp { src: self.src, dst: self.dst, sport: self.sport, dport: self.dport, hl: self.hl, len }
    }
    /// all datagrams of a UDP scenario, in sending order
    pub fn dgs(&self) -> Vec<Dgp> {
        let mut v = vec![];
        if self.part == "seq" {
            if let Some(f) = &self.first {
                v.push(f.clone());
            }
        }
        for &l in &self.lens {
            v.push(self.main_dg(l));
        }
        // "twosock": `first` describes the datagram of the LATER socket of the same egress pass
        // (stim_kind == 1: sent as an echo request through the ICMP socket instead, judged apart)
        if self.part == "twosock" && self.stim_kind != 1 {
            if let Some(f) = &self.first {
                v.push(f.clone());
            }
        }
        v
    }
    pub fn dg_src(&self, d: &Dgp) -> Ipv6Address {
        unicast_addr(0, self.s_hw, d.src)
    }
    pub fn dg_dst(&self, d: &Dgp) -> Ipv6Address {
        dst_addr(self.r_hw, d.dst)
    }
    pub fn to_json(&self) -> Value {
        json!({"part": self.part, "s_hw": self.s_hw.name(), "r_hw": self.r_hw.name(), "src": self.src.name(),
            "dst": self.dst.name(), "pan": self.pan, "mtu": self.mtu, "sport": self.sport, "dport": self.dport,
            "hl": self.hl, "lens": self.lens, "order": self.order, "first": self.first.as_ref().map(|f| f.to_json()), "fill": self.fill,
            "hw_to": self.hw_to.map(|h| h.name()), "chg_after": self.chg_after, "one_per_poll": self.one_per_poll,
            "stim_kind": self.stim_kind, "stim_third": self.stim_third, "stim_len": self.stim_len, "block_rounds": self.block_rounds})
    }
    pub fn from_json(v: &Value) -> Scn {
        let us = |k: &str| v[k].as_u64().unwrap_or(0);
        let list = |k: &str| v[k].as_array().map(|a| a.iter().map(|x| x.as_u64().unwrap_or(0) as usize).collect()).unwrap_or_default();
        Scn {
            part: v["part"].as_str().unwrap_or("udp").to_string(),
            s_hw: HwKind::from_name(v["s_hw"].as_str().unwrap_or("ext")),
            r_hw: HwKind::from_name(v["r_hw"].as_str().unwrap_or("ext")),
            src: AddrClass::from_name(v["src"].as_str().unwrap_or("ll-hw")),
            dst: AddrClass::from_name(v["dst"].as_str().unwrap_or("ll-hw")),
            pan: v["pan"].as_bool().unwrap_or(true),
            mtu: us("mtu") as usize,
            sport: us("sport") as u16,
            dport: us("dport") as u16,
            hl: us("hl") as u8,
            lens: list("lens"),
            order: list("order"),
            first: Dgp::from_json(&v["first"]),
            fill: v["fill"].as_u64().unwrap_or(FILL as u64) as u8,
            hw_to: v["hw_to"].as_str().map(HwKind::from_name),
            chg_after: v["chg_after"].as_u64().unwrap_or(0) as usize,
            one_per_poll: v["one_per_poll"].as_bool().unwrap_or(false),
            stim_kind: v["stim_kind"].as_u64().unwrap_or(0) as u8,
            stim_third: v["stim_third"].as_bool().unwrap_or(false),
            stim_len: v["stim_len"].as_u64().unwrap_or(0) as usize,
            block_rounds: v["block_rounds"].as_u64().unwrap_or(0) as usize,
        }
    }
    pub fn proto(&self) -> Proto {
        match self.part.as_str() {
            "icmp" => Proto::Icmp,
            "tcp" => Proto::Tcp,
            _ => Proto::Udp,
        }
    }
    pub fn world_cfg(&self, med: Med) -> WorldCfg {
        let (s_need, r_need) = self.needed_extras();
        let cap = smoltcp::config::IFACE_MAX_ADDR_COUNT.saturating_sub(1);
        // give each node the other side's classes too while there is room (shared prefixes)
        let mut s_extra = s_need.clone();
        let mut r_extra = r_need.clone();
        for c in &r_need {
            if s_extra.len() < cap && !s_extra.contains(c) {
                s_extra.push(*c);
            }
        }
        for c in &s_need {
            if r_extra.len() < cap && !r_extra.contains(c) {
                r_extra.push(*c);
            }
        }
        let mtu = match (med, self.proto()) {
            (Med::Lowpan, _) => self.mtu,
            // TCP: same MTU so that both worlds segment alike; UDP/ICMP: the reference world must
            // not drop what 6LoWPAN can carry (IPv6 fragmentation is not implemented)
            (Med::Ip, Proto::Tcp) => self.mtu,
            (Med::Ip, _) => 2048,
        };
        WorldCfg {
            med,
            mtu,
            pan: self.pan,
            s_hw: self.s_hw,
            r_hw: self.r_hw,
            s_extra,
            r_extra,
            r_any_ip: self.dst.needs_any_ip() || self.first.as_ref().is_some_and(|f| f.dst.needs_any_ip()),
            r_join: {
                let mut g = vec![];
                for d in self.first.iter().map(|f| f.dst).chain([self.dst]) {
                    let a = dst_addr(self.r_hw, d);
                    if d.needs_join() && !g.contains(&a) {
                        g.push(a);
                    }
                }
                g
            },
            fill: self.fill,
            stimulus_sockets: self.part == "ingress" || self.part == "twosock",
            two_sockets: self.part == "twosock",
            proto: self.proto(),
            tcp_buf: 4096,
        }
    }
    pub fn src_addr(&self) -> Ipv6Address {
        unicast_addr(0, self.s_hw, self.src)
    }
    pub fn dst_addr(&self) -> Ipv6Address {
        dst_addr(self.r_hw, self.dst)
    }
    /// can this combination be set up at all? (a node with a SHORT hardware address cannot take
    /// part in neighbor discovery: `RawHardwareAddress::parse` wants 8 octets, so nobody can
    /// resolve it; it can still send to multicast, and to a unicast neighbor that solicited it)
    pub fn feasible(&self) -> bool {
        let mut all = vec![(self.src, self.dst)];
        if let Some(f) = &self.first {
            all.push((f.src, f.dst));
        }
        for (_, dst) in all {
            if self.r_hw == HwKind::Short && !dst.is_mcast() {
                return false;
            }
            if self.s_hw == HwKind::Short && !dst.is_mcast() && dst != AddrClass::LlHw {
                return false;
            }
        }
        let (s_need, r_need) = self.needed_extras();
        let cap = smoltcp::config::IFACE_MAX_ADDR_COUNT.saturating_sub(1);
        s_need.len() <= cap && r_need.len() <= cap
    }
    /// address classes (besides LlHw) S must own (sources) and R must own (unicast destinations)
    pub fn needed_extras(&self) -> (Vec<AddrClass>, Vec<AddrClass>) {
        let uni = |c: AddrClass| !c.is_mcast() && c != AddrClass::LlHw;
        let mut s_need = vec![];
        let mut r_need = vec![];
        let mut all = vec![];
        if let Some(f) = &self.first {
            all.push((f.src, f.dst));
        }
        all.push((self.src, self.dst));
        for (src, dst) in all {
            if uni(src) && !s_need.contains(&src) {
                s_need.push(src);
            }
            if uni(dst) && !r_need.contains(&dst) {
                r_need.push(dst);
            }
        }
        (s_need, r_need)
    }
}

/// Coarse scenario class used for the RAW signature while enumerating (one per combination of
/// encoding branches). `lowpan.rs::minimize` later resets every dimension that is not needed for
/// the failure to its baseline value and derives the final, minimal cause label with `label_of`.
pub fn cause(scn: &Scn, _nfrag1: usize) -> String {
    format!(
        "{}|first={},src={},dst={},hw={}-{},ports={:#06x}x{:#06x},hl={},pan={},mtu={},fill={},chg={:?}@{}/{},stim={}/{}/{}/{}",
        scn.part,
        scn.first.as_ref().map(|f| format!("{}>{}:{:#06x}x{:#06x}:{}:{}", f.src.name(), f.dst.name(), f.sport, f.dport, f.hl, size_class(scn.s_hw, scn.r_hw, f))).unwrap_or_default(),
        scn.src.name(),
        scn.dst.name(),
        scn.s_hw.name(),
        scn.r_hw.name(),
        scn.sport,
        scn.dport,
        scn.hl,
        scn.pan,
        scn.mtu,
        scn.fill,
        scn.hw_to.map(|h| h.name()),
        scn.chg_after,
        scn.one_per_poll,
        scn.stim_kind,
        scn.stim_third,
        scn.stim_len,
        scn.block_rounds
    )
}

/// RFC 6282 4.3.3 port compression mode the NHC encoder has to pick for this port pair
pub fn nhc_port_mode(sport: u16, dport: u16) -> &'static str {
    let b4 = |p: u16| (0xf0b0..=0xf0bf).contains(&p);
    let b8 = |p: u16| (0xf000..=0xf0ff).contains(&p);
    if b4(sport) && b4(dport) {
        "P=11(src 4 bit, dst 4 bit)"
    } else if b8(sport) {
        "P=10(src 8 bit, dst inline)"
    } else if b8(dport) {
        "P=01(src inline, dst 8 bit)"
    } else {
        "P=00(both inline)"
    }
}

/// Final cause label: the observable evidence flag plus every dimension of the (minimized)
/// scenario that differs from the baseline (extended hw addresses, link-local addresses derived
/// from them, ports 1234->1234, hop limit 64, PAN id set, device MTU 1500, one datagram).
pub fn label_of(scn: &Scn, interrupted: bool) -> String {
    let mut p: Vec<String> = vec![];
    if interrupted {
        // The frame log itself shows the cause: a new FRAG1 went out while fragments of the
        // previous datagram were still unsent. Which datagram sizes run into that depends on the
        // header sizes (address classes, ports), so those dimensions are not part of the cause.
        return if scn.part == "b2b" {
            "fragmentation-interrupted-by-next-datagram,two-datagrams-back-to-back".into()
        } else {
            "fragmentation-interrupted-by-next-datagram".into()
        };
    }
    if (scn.s_hw, scn.r_hw) != (HwKind::Ext, HwKind::Ext) && scn.part != "hwchg" {
        p.push(format!("hw={}-{}", scn.s_hw.name(), scn.r_hw.name()));
    }
    if !scn.pan {
        p.push("no-pan-id".into());
    }
    if scn.mtu != 1500 {
        p.push(format!("mtu={}", scn.mtu));
    }
    if scn.fill != FILL {
        p.push(format!("tx-buffer-prefill={:#04x}", scn.fill));
    }
    if scn.src != AddrClass::LlHw {
        p.push(format!("src={}", scn.src.name()));
    }
    if scn.dst != AddrClass::LlHw {
        p.push(format!("dst={}", scn.dst.name()));
    }
    if scn.hl != 64 {
        p.push(format!("hl={}", scn.hl));
    }
    if scn.proto() == Proto::Udp && (scn.sport, scn.dport) != (1234, 1234) {
        if canonical_ports(scn.sport, scn.dport) == (scn.sport, scn.dport) {
            p.push(format!("nhc-ports {}", nhc_port_mode(scn.sport, scn.dport)));
        } else {
            // not reproducible with the canonical pair of the mode: the values matter
            p.push(format!("nhc-ports {} {:#06x}->{:#06x}", nhc_port_mode(scn.sport, scn.dport), scn.sport, scn.dport));
        }
    }
    if scn.part == "b2b" {
        p.push("two-datagrams-back-to-back".into());
    }
    if matches!(scn.part.as_str(), "udp" | "icmp") && scn.lens.len() == 1 {
        let (_, ch, _, extra) = hdr_sizes(scn.s_hw, scn.r_hw, scn.src, scn.dst, scn.sport, scn.dport, scn.hl, scn.proto());
        if ch + extra + scn.lens[0] == smoltcp::config::FRAGMENTATION_BUFFER_SIZE {
            p.push("compressed-datagram-fills-the-fragmentation-buffer-exactly".into());
        }
    }
    if let (true, Some(to)) = (scn.part == "hwchg", scn.hw_to) {
        p.push(format!("sender-hw-address-changed-while-fragments-pending({}->{})", scn.s_hw.name(), to.name()));
        if scn.one_per_poll {
            p.push("device-takes-one-frame-per-poll".into());
        }
    }
    if scn.part == "ingress" && scn.stim_kind != 0 {
        p.push(format!(
            "{}-from-{}-received-while-fragments-pending",
            if scn.stim_kind == 1 { "echo-request" } else { "udp-to-closed-port" },
            if scn.stim_third { "third-node" } else { "peer" }
        ));
        // (how the fragments were kept pending -- one frame per poll, device blocked, or simply
        // more fragments than one poll sends -- is a precondition, not the cause: not in the label)
    }
    if scn.part == "perm" {
        match &scn.first {
            None => p.push("receiver's-first-reassembly".into()),
            Some(f) => p.push(format!("receiver-reassembled-a-{}-datagram-before", size_class(scn.s_hw, scn.r_hw, f))),
        }
    }
    if scn.part == "seq" || scn.part == "twosock" {
        if let (Some(f), Some(&l)) = (&scn.first, scn.lens.first()) {
            p.push(size_class(scn.s_hw, scn.r_hw, &scn.main_dg(l)).into());
            let mut q: Vec<String> = vec![];
            if f.src != AddrClass::LlHw {
                q.push(format!("src={}", f.src.name()));
            }
            if f.dst != AddrClass::LlHw {
                q.push(format!("dst={}", f.dst.name()));
            }
            if f.hl != 64 {
                q.push(format!("hl={}", f.hl));
            }
            let base2 = if scn.part == "twosock" { (SPORT2, 1234) } else { (1234, 1234) };
            if (f.sport, f.dport) != base2 && !(scn.part == "twosock" && scn.stim_kind == 1) {
                if canonical_ports(f.sport, f.dport) == (f.sport, f.dport) {
                    q.push(format!("nhc-ports {}", nhc_port_mode(f.sport, f.dport)));
                } else {
                    q.push(format!("nhc-ports {} {:#06x}->{:#06x}", nhc_port_mode(f.sport, f.dport), f.sport, f.dport));
                }
            }
            q.push(size_class(scn.s_hw, scn.r_hw, f).into());
            if scn.part == "twosock" {
                q.insert(0, if scn.stim_kind == 1 { "icmp-socket:echo-request".into() } else { "second-udp-socket".to_string() });
                p.push(format!("with-a-later-socket-queued-before-the-same-poll[{}]", q.join(",")));
            } else {
                p.push(format!("after-a-datagram[{}]", q.join(",")));
            }
        }
    }
    if p.is_empty() {
        "baseline".into()
    } else {
        p.join(",")
    }
}

/// Evidence flag: in a sequence of frames from one sender, a new FRAG1 starts while the previous
/// fragmented datagram has not been sent completely (its last FRAGN never appeared before).
pub fn interrupted(frames: &[Vec<u8>]) -> bool {
    let mut open: Option<(u16, u16)> = None;
    for f in frames {
        match lowpan_kind(f) {
            LowpanKind::Frag1 { size, tag } => {
                if open.is_some() {
                    return true;
                }
                open = Some((tag, size));
            }
            LowpanKind::FragN { size, tag, offset8 } => {
                if open == Some((tag, size)) {
                    let plen = f.len() - mac_hdr_len(f).unwrap_or(0) - 5;
                    if offset8 as usize * 8 + plen >= size as usize {
                        open = None;
                    }
                }
            }
            _ => {}
        }
    }
    false
}

pub fn pattern(len: usize, salt: usize) -> Vec<u8> {
    (0..len).map(|i| ((i as u32).wrapping_mul(0x9E37_79B1).wrapping_add((salt as u32 + 1).wrapping_mul(0x85EB_CA6B)) >> 23) as u8).collect()
}

// ---------------------------------------------------------------------------------------
// accumulation
// ---------------------------------------------------------------------------------------

#[derive(Default)]
pub struct Acc {
    pub scenarios: u64,
    pub datagrams: u64,
    pub delivered: u64,
    pub beyond_bounds: u64,
    pub frames: u64,
    pub polls: u64,
    pub worlds: u64,
    pub warm_fail: u64,
    pub perm_sequences: u64,
    pub perm_delivered_frag1_first: u64,
    pub perm_delivered_other_order: u64,
    pub perm_undelivered_other_order: u64,
    pub perm_skipped_base_fails: u64,
    pub frag_hist: BTreeMap<usize, u64>,
    pub outcomes: BTreeMap<String, u64>,
    pub per_part: BTreeMap<String, u64>,
    /// (first length needing fragmentation) per (mac hdr, iphc+nhc) class, for the evidence
    pub thresholds: BTreeMap<String, BTreeSet<usize>>,
    pub viols: BTreeMap<String, (Scn, String)>,
    pub machinery: Vec<String>,
    pub samples: Vec<Value>,
    /// evidence flag of the scenarios evaluated into this Acc (see `interrupted`)
    pub interrupted: bool,
    pub reordered: u64,
    pub boundary_confirmed: u64,
    pub boundary_mispredicted: u64,
    pub notes: BTreeSet<String>,
}
impl Acc {
    pub fn viol(&mut self, sig: String, detail: String, scn: &Scn) {
        let key = |s: &Scn| (s.lens.iter().sum::<usize>(), s.order.len(), s.clone());
        match self.viols.get(&sig) {
            Some((old, _)) if key(old) <= key(scn) => {}
            _ => {
                self.viols.insert(sig, (scn.clone(), detail));
            }
        }
    }
    pub fn outcome(&mut self, s: String) {
        *self.outcomes.entry(s).or_insert(0) += 1;
    }
    pub fn merge(&mut self, o: Acc) {
        self.scenarios += o.scenarios;
        self.datagrams += o.datagrams;
        self.delivered += o.delivered;
        self.beyond_bounds += o.beyond_bounds;
        self.frames += o.frames;
        self.polls += o.polls;
        self.worlds += o.worlds;
        self.warm_fail += o.warm_fail;
        self.perm_sequences += o.perm_sequences;
        self.perm_delivered_frag1_first += o.perm_delivered_frag1_first;
        self.perm_delivered_other_order += o.perm_delivered_other_order;
        self.perm_undelivered_other_order += o.perm_undelivered_other_order;
        self.perm_skipped_base_fails += o.perm_skipped_base_fails;
        self.interrupted |= o.interrupted;
        self.reordered += o.reordered;
        self.boundary_confirmed += o.boundary_confirmed;
        self.boundary_mispredicted += o.boundary_mispredicted;
        for n in o.notes {
            if self.notes.len() < 40 {
                self.notes.insert(n);
            }
        }
        for (k, v) in o.frag_hist {
            *self.frag_hist.entry(k).or_insert(0) += v;
        }
        for (k, v) in o.outcomes {
            *self.outcomes.entry(k).or_insert(0) += v;
        }
        for (k, v) in o.per_part {
            *self.per_part.entry(k).or_insert(0) += v;
        }
        for (k, v) in o.thresholds {
            self.thresholds.entry(k).or_default().extend(v);
        }
        for (sig, (scn, d)) in o.viols {
            self.viol(sig, d, &scn);
        }
        for m in o.machinery {
            if self.machinery.len() < 20 {
                self.machinery.push(m);
            }
        }
        for s in o.samples {
            if self.samples.len() < 12 {
                self.samples.push(s);
            }
        }
    }
}

// ---------------------------------------------------------------------------------------
// datagram exchange (UDP)
// ---------------------------------------------------------------------------------------

pub struct Out {
    pub accepted: Vec<bool>,
    pub udp: Vec<UdpObs>,
    pub raw: Vec<Vec<u8>>,
    pub frames: Vec<Vec<u8>>,
    pub back_frames: Vec<Vec<u8>>,
    pub quiescent: bool,
    pub too_long: Vec<(char, Vec<u8>)>,
    /// what R's ICMP socket saw ("twosock" part with an ICMP second socket)
    pub icmp_r: Vec<IcmpObs>,
}

/// neighbor caches are filled by the REAL NS/NA exchange, triggered by tiny datagrams between
/// dedicated warm-up sockets; returns false when the forward warm-up datagram did not arrive
pub fn prepare(w: &mut World, scn: &Scn) -> bool {
    let mut ok = true;
    let s_ll = unicast_addr(0, scn.s_hw, AddrClass::LlHw);
    let r_ll = unicast_addr(1, scn.r_hw, AddrClass::LlHw);
    let mut dsts: Vec<AddrClass> = vec![];
    if let Some(f) = &scn.first {
        dsts.push(f.dst);
    }
    if !dsts.contains(&scn.dst) {
        dsts.push(scn.dst);
    }
    let uni: Vec<AddrClass> = dsts.iter().copied().filter(|d| !d.is_mcast()).collect();
    if !uni.is_empty() {
        if scn.s_hw == HwKind::Short {
            // R cannot resolve S, but its solicitation teaches S where R is
            let _ = w.warm(false, r_ll, s_ll);
            w.warm_reset(false);
        }
        for d in &uni {
            ok &= w.warm(true, s_ll, dst_addr(scn.r_hw, *d));
        }
        if scn.part == "ingress" && scn.s_hw == HwKind::Ext {
            // the peer will send its stimulus to S's link-local address
            ok &= w.warm(false, r_ll, s_ll);
        }
        if scn.proto() != Proto::Udp && scn.s_hw == HwKind::Ext {
            // replies flow R -> S: resolve that direction too (for every source S may use)
            let srcs: Vec<Ipv6Address> = w.s.addrs.clone();
            for a in srcs {
                ok &= w.warm(false, scn.dst_addr(), a);
            }
        }
    } else if scn.proto() != Proto::Udp {
        // echo replies to a multicast request come from one of R's addresses
        let srcs: Vec<Ipv6Address> = w.s.addrs.clone();
        for a in srcs {
            ok &= w.warm(false, r_ll, a);
        }
    }
    w.settle(20);
    let hs = w.s.udp;
    let hr = w.r.udp;
    let _ = World::udp_drain(&mut w.s, hs);
    let _ = World::udp_drain(&mut w.r, hr);
    w.clear_logs();
    ok
}

pub fn udp_exchange(w: &mut World, scn: &Scn) -> Out {
    w.clear_logs();
    w.too_long.clear();
    let dgs = scn.dgs();
    let mut accepted = vec![];
    let mut quiescent = true;
    let mut udp = vec![];
    let h = w.r.udp;
    if scn.part == "seq" {
        // one datagram at a time, each polled to quiescence; sockets re-bound in between
        // (ports / hop limit may differ) -- the interfaces and their buffers live on
        for (i, d) in dgs.iter().enumerate() {
            w.udp_rebind(d.sport, d.dport, d.hl);
            accepted.push(w.udp_send(scn.dg_src(d), scn.dg_dst(d), d.dport, &pattern(d.len, i)));
            quiescent &= w.settle(80 + d.len / 30);
            udp.extend(World::udp_drain(&mut w.r, h));
        }
    } else if scn.part == "twosock" {
        // socket 1 (first in the SocketSet) and a later socket each queue one datagram before
        // the same poll
        let d = &dgs[0];
        accepted.push(w.udp_send(scn.dg_src(d), scn.dg_dst(d), d.dport, &pattern(d.len, 0)));
        if let Some(f) = &scn.first {
            if scn.stim_kind == 1 {
                let h2 = w.s.icmp.unwrap();
                let s = w.s.sockets.get_mut::<icmp::Socket>(h2);
                s.set_hop_limit(Some(f.hl));
                let _ = s.send_slice(&echo_request(f.len, 11), IpAddress::Ipv6(scn.dg_dst(f)));
            } else {
                let h2 = w.s.udp2.unwrap();
                let s = w.s.sockets.get_mut::<smoltcp::socket::udp::Socket>(h2);
                s.close();
                s.bind(f.sport).unwrap();
                s.set_hop_limit(Some(f.hl));
                let mut meta = smoltcp::socket::udp::UdpMetadata::from(IpEndpoint::new(IpAddress::Ipv6(scn.dg_dst(f)), f.dport));
                meta.local_address = Some(IpAddress::Ipv6(scn.dg_src(f)));
                accepted.push(s.send_slice(&pattern(f.len, 1), meta).is_ok());
            }
        }
        if scn.one_per_poll {
            w.s.per_poll = Some(1);
        }
        let total: usize = dgs.iter().map(|d| d.len).sum::<usize>() + scn.first.as_ref().map(|f| f.len).unwrap_or(0);
        quiescent = w.settle(120 + total / 10);
        w.s.per_poll = None;
        w.s.dev.budget = None;
        udp.extend(World::udp_drain(&mut w.r, h));
    } else {
        for (i, d) in dgs.iter().enumerate() {
            accepted.push(w.udp_send(scn.dg_src(d), scn.dg_dst(d), d.dport, &pattern(d.len, i)));
        }
        let total: usize = scn.lens.iter().sum();
        quiescent = w.settle(80 + total / 30);
        udp.extend(World::udp_drain(&mut w.r, h));
    }
    Out {
        accepted,
        udp,
        raw: std::mem::take(&mut w.raw_r),
        frames: std::mem::take(&mut w.s2r),
        back_frames: std::mem::take(&mut w.r2s),
        quiescent,
        too_long: std::mem::take(&mut w.too_long),
        icmp_r: World::icmp_drain(&mut w.r),
    }
}

#[derive(Debug, Clone, PartialEq, Eq)]
pub struct RawDgram {
    pub plen: usize,
    pub nh: u8,
    pub hl: u8,
    pub src: [u8; 16],
    pub dst: [u8; 16],
    pub l4: Vec<u8>,
}
pub fn parse_raw(p: &[u8]) -> Option<RawDgram> {
    if p.len() < 40 || p[0] >> 4 != 6 {
        return None;
    }
    Some(RawDgram {
        plen: u16::from_be_bytes([p[4], p[5]]) as usize,
        nh: p[6],
        hl: p[7],
        src: p[8..24].try_into().unwrap(),
        dst: p[24..40].try_into().unwrap(),
        l4: p[40..].to_vec(),
    })
}
fn ip6(a: &[u8; 16]) -> String {
    format!("{}", Ipv6Address::from_octets(*a))
}
fn frames_text(fr: &[Vec<u8>], lowpan: bool) -> String {
    let mut s = String::new();
    for (i, f) in fr.iter().enumerate().take(8) {
        if lowpan {
            s.push_str(&format!("\n  frame[{}] {}: {}", i, describe_frame(f), hex(f)));
        } else {
            s.push_str(&format!("\n  packet[{}] len={}: {}", i, f.len(), hex(f)));
        }
    }
    if fr.len() > 8 {
        s.push_str(&format!("\n  ... {} frames in total", fr.len()));
    }
    s
}

/// compare the transport-independent IPv6 header fields of two reconstructed datagrams; returns
/// the names of the differing fields. For UDP the checksum field is reported separately.
fn raw_diff(a: &RawDgram, b: &RawDgram, proto: Proto) -> Vec<&'static str> {
    let mut d = vec![];
    if a.src != b.src {
        d.push("src-addr");
    }
    if a.dst != b.dst {
        d.push("dst-addr");
    }
    if a.nh != b.nh {
        d.push("next-header");
    }
    if a.hl != b.hl {
        d.push("hop-limit");
    }
    if a.plen != b.plen {
        d.push("payload-length");
    }
    match proto {
        Proto::Udp if a.l4.len() >= 8 && b.l4.len() >= 8 => {
            if a.l4[0..4] != b.l4[0..4] {
                d.push("udp-ports");
            }
            if a.l4[4..6] != b.l4[4..6] {
                d.push("udp-length");
            }
            if a.l4[6..8] != b.l4[6..8] {
                d.push("udp-checksum-field");
            }
            if a.l4[8..] != b.l4[8..] {
                d.push("payload-bytes");
            }
        }
        _ => {
            if a.l4 != b.l4 {
                d.push("transport-bytes");
            }
        }
    }
    d
}

pub struct Verdict {
    pub all_delivered: bool,
    pub rebuild: bool,
    pub nfrag1: usize,
}

/// Evaluate one UDP exchange (1 or 2 datagrams) in the 6LoWPAN world against the direct clauses
/// and against the reference world.
pub fn eval_udp(scn: &Scn, lo: &Out, ip: Option<&Out>, ch_obs: Option<usize>, acc: &mut Acc) -> Verdict {
    let proto = Proto::Udp;
    let dgs = scn.dgs();
    let nfrag1 = lo.frames.iter().filter(|f| matches!(lowpan_kind(f), LowpanKind::Frag1 { .. })).count();
    let cz = cause(scn, nfrag1);
    let ctx = |extra: &str| -> String {
        let d: Vec<String> = dgs
            .iter()
            .enumerate()
            .map(|(i, d)| format!("#{}: {} -> {} sport={:#06x} dport={:#06x} hl={} len={}", i, scn.dg_src(d), scn.dg_dst(d), d.sport, d.dport, d.hl, d.len))
            .collect();
        format!("{} | scenario {} | datagrams [{}] | frames S->R:{}", extra, scn.to_json(), d.join("; "), frames_text(&lo.frames, true))
    };
    let mut rebuild = false;
    // frame clause
    for (dir, f) in &lo.too_long {
        acc.viol(
            format!("C20/frame-too-long/udp/{}", cz),
            ctx(&format!("{} handed a {}-octet frame to its 802.15.4 device (limit 125 + 2 FCS): {}", dir, f.len(), hex(f))),
            scn,
        );
    }
    // wire clause: all fragments of one datagram (same tag) carry the same link-layer source
    {
        let mut by_tag: BTreeMap<u16, Vec<u8>> = BTreeMap::new();
        for f in &lo.frames {
            let tag = match lowpan_kind(f) {
                LowpanKind::Frag1 { tag, .. } | LowpanKind::FragN { tag, .. } => tag,
                _ => continue,
            };
            let src = mac_src(f).unwrap_or_default();
            match by_tag.get(&tag) {
                Some(s0) if *s0 != src => {
                    acc.viol(
                        format!("C20/fragment-source-changed/udp/{}", cz),
                        ctx(&format!("fragments of datagram tag {:#06x} carry different link-layer sources: {} and {}", tag, hex(s0), hex(&src))),
                        scn,
                    );
                    break;
                }
                Some(_) => {}
                None => {
                    by_tag.insert(tag, src);
                }
            }
        }
    }
    if !lo.quiescent {
        acc.viol(format!("C20/no-quiescence/udp/{}", cz), ctx("frames still flowing after the round budget"), scn);
        rebuild = true;
    }
    // expectation: what S's socket accepted
    let exp: Vec<(usize, UdpObs)> = dgs
        .iter()
        .enumerate()
        .filter(|(i, _)| lo.accepted[*i])
        .map(|(i, d)| (i, UdpObs { payload: pattern(d.len, i), src: scn.dg_src(d).octets(), sport: d.sport, local: scn.dg_dst(d).octets() }))
        .collect();
    // compressed header size: measured on this job's own unfragmented frame when available,
    // otherwise predicted from the address/port/hop-limit classes
    let inb: Vec<bool> = exp
        .iter()
        .map(|(i, e)| {
            let d = &dgs[*i];
            let ch = ch_obs.unwrap_or_else(|| hdr_sizes(scn.s_hw, scn.r_hw, d.src, d.dst, d.sport, d.dport, d.hl, Proto::Udp).1);
            delivery_demanded(ch, 48, e.payload.len())
        })
        .collect();
    // safety: nothing but what was sent, each at most once
    let mut matched = vec![false; exp.len()];
    let mut match_order = vec![];
    for o in &lo.udp {
        // (two datagrams of one exchange may be identical: match as a multiset)
        let cand: Vec<usize> = exp.iter().enumerate().filter(|(_, (_, e))| e == o).map(|(k, _)| k).collect();
        if let Some(&k) = cand.iter().find(|k| !matched[**k]) {
            matched[k] = true;
            match_order.push(k);
        } else if let Some(&k) = cand.first() {
            acc.viol(
                format!("C20/duplicated/udp/{}", cz),
                ctx(&format!("datagram #{} ({} bytes) was delivered more often than it was sent", exp[k].0, exp[k].1.payload.len())),
                scn,
            );
            rebuild = true;
        } else {
            acc.viol(
                format!("C20/corrupted/udp/{}", cz),
                ctx(&format!(
                    "receiver's socket delivered a datagram the sender never sent: {} bytes from [{}]:{} to {} payload {}",
                    o.payload.len(),
                    ip6(&o.src),
                    o.sport,
                    ip6(&o.local),
                    hex(&o.payload[..o.payload.len().min(48)])
                )),
                scn,
            );
            rebuild = true;
        }
    }
    // delivery
    let mut all_delivered = true;
    for (k, (i, e)) in exp.iter().enumerate() {
        acc.datagrams += 1;
        if matched[k] {
            acc.delivered += 1;
        } else {
            all_delivered = false;
        }
        if !inb[k] {
            acc.beyond_bounds += 1;
            continue;
        }
        if !matched[k] {
            let rawtxt: Vec<String> = lo
                .raw
                .iter()
                .filter_map(|p| parse_raw(p))
                .map(|r| {
                    let ports = if r.l4.len() >= 4 {
                        format!("sport={:#06x} dport={:#06x}", u16::from_be_bytes([r.l4[0], r.l4[1]]), u16::from_be_bytes([r.l4[2], r.l4[3]]))
                    } else {
                        String::new()
                    };
                    format!("[{} -> {} nh={} hl={} plen={} {}]", ip6(&r.src), ip6(&r.dst), r.nh, r.hl, r.plen, ports)
                })
                .collect();
            acc.viol(
                format!("C20/lost/udp/{}", cz),
                ctx(&format!(
                    "datagram #{} ({} payload bytes, IPv6 size {}) was accepted by the sender's socket, frames arrived in order, but the receiver's socket bound to port {:#06x} never got it; datagrams the receiving interface reconstructed (raw socket): {:?}; frames R->S: {}",
                    i,
                    e.payload.len(),
                    48 + e.payload.len(),
                    dgs[*i].dport,
                    rawtxt,
                    lo.back_frames.len()
                )),
                scn,
            );
            // an unfragmented datagram that went out leaves nothing behind in either interface
            // (one that never went out is still queued in the sender's socket)
            rebuild |= lo.frames.len() != 1;
        }
    }
    // Order BETWEEN datagrams is not part of the statement (and UDP does not promise it): an
    // unfragmented datagram legitimately overtakes the remaining fragments of an earlier one.
    // Counted for the evidence only.
    if match_order.windows(2).any(|w| w[0] > w[1]) {
        acc.reordered += 1;
    }
    acc.interrupted |= interrupted(&lo.frames);
    // reconstructed datagram vs reference world
    if let Some(ip) = ip {
        let exp_ip: Vec<UdpObs> = dgs
            .iter()
            .enumerate()
            .filter(|(i, _)| ip.accepted[*i])
            .map(|(i, d)| UdpObs { payload: pattern(d.len, i), src: scn.dg_src(d).octets(), sport: d.sport, local: scn.dg_dst(d).octets() })
            .collect();
        let ip_ok = ip.udp == exp_ip;
        if !ip_ok {
            if acc.machinery.len() < 20 && inb.iter().all(|b| *b) {
                acc.machinery.push(format!("reference (Medium::Ip) world did not deliver what was sent: {}", scn.to_json()));
            }
        } else if all_delivered && ip.accepted == lo.accepted && inb.iter().all(|b| *b) {
            // compared as multisets (see the note on order above)
            let sorted = |v: &Vec<UdpObs>| {
                let mut v = v.clone();
                v.sort_by(|a, b| (a.payload.len(), &a.payload).cmp(&(b.payload.len(), &b.payload)));
                v
            };
            if sorted(&lo.udp) != sorted(&ip.udp) {
                acc.viol(format!("C20/differs-from-ip-medium/udp/socket-observations/{}", cz), ctx("socket-level observations differ between the media"), scn);
            }
            let mut lr: Vec<RawDgram> = lo.raw.iter().filter_map(|p| parse_raw(p)).collect();
            let mut ir: Vec<RawDgram> = ip.raw.iter().filter_map(|p| parse_raw(p)).collect();
            let key = |r: &RawDgram| (r.l4.len(), r.l4.get(8..).map(|x| x.to_vec()).unwrap_or_default());
            lr.sort_by_key(key);
            ir.sort_by_key(key);
            if lr.len() != ir.len() {
                acc.viol(
                    format!("C20/differs-from-ip-medium/udp/datagram-count/{}", cz),
                    ctx(&format!("receiving interface reconstructed {} datagrams, reference world {}", lr.len(), ir.len())),
                    scn,
                );
            } else {
                for (a, b) in lr.iter().zip(ir.iter()) {
                    for fld in raw_diff(a, b, proto) {
                        // the cause of a header-field difference is the field itself: it does
                        // not depend on the scenario class
                        let sig = format!("C20/differs-from-ip-medium/udp/{}", fld);
                        let show = |r: &RawDgram| {
                            format!(
                                "{} -> {} nh={} hl={} plen={} l4hdr={}",
                                ip6(&r.src),
                                ip6(&r.dst),
                                r.nh,
                                r.hl,
                                r.plen,
                                hex(&r.l4[..r.l4.len().min(8)])
                            )
                        };
                        acc.viol(
                            sig,
                            ctx(&format!(
                                "IPv6 datagram reconstructed by the receiving 802.15.4 interface differs in `{}` from the datagram sent (as delivered over Medium::Ip): 6LoWPAN [{}] vs IP [{}]",
                                fld,
                                show(a),
                                show(b)
                            )),
                            scn,
                        );
                    }
                }
            }
        }
    }
    Verdict { all_delivered, rebuild, nfrag1 }
}

fn world_pair(scn: &Scn, acc: &mut Acc) -> (World, World) {
    let mut wl = World::new(&scn.world_cfg(Med::Lowpan));
    let mut wi = World::new(&scn.world_cfg(Med::Ip));
    if !prepare(&mut wl, scn) {
        acc.warm_fail += 1;
        if acc.notes.len() < 40 {
            acc.notes.insert(format!("warm-up datagram not delivered: part={} hw={}-{} src={} dst={}", scn.part, scn.s_hw.name(), scn.r_hw.name(), scn.src.name(), scn.dst.name()));
        }
    }
    prepare(&mut wi, scn);
    if scn.proto() == Proto::Udp {
        wl.udp_rebind(scn.sport, scn.dport, scn.hl);
        wi.udp_rebind(scn.sport, scn.dport, scn.hl);
    }
    acc.worlds += 2;
    (wl, wi)
}

fn panic_viol(scn: &Scn, e: Box<dyn std::any::Any + Send>, acc: &mut Acc, what: &str) {
    let site = panic_site();
    acc.viol(
        format!("C20/panic/{}", site),
        format!("panic in {}: {} at {} | scenario {}", what, panic_msg(e), last_panic_loc(), scn.to_json()),
        scn,
    );
}

/// One job of the UDP part: fixed addresses/ports/hop limit, every length in `lens` (one
/// datagram per exchange) on a reused pair of worlds (rebuilt after any loss or panic so that a
/// stuck reassembly slot cannot poison the following lengths).
pub fn run_udp_job(job: &Scn, lens: &[usize], pred_unfrag_max: Option<usize>, sample: bool, acc: &mut Acc) {
    let r = catch_unwind(AssertUnwindSafe(|| world_pair(job, acc)));
    let (mut wl, mut wi) = match r {
        Ok(x) => x,
        Err(e) => {
            panic_viol(job, e, acc, "world setup / neighbor discovery");
            return;
        }
    };
    // frames per length, to confirm the predicted fragmentation threshold (evidence only)
    let mut nframes: BTreeMap<usize, usize> = BTreeMap::new();
    let mut ch_obs: Option<usize> = None;
    for &l in lens {
        let mut scn = job.clone();
        scn.lens = vec![l];
        acc.scenarios += 1;
        *acc.per_part.entry(scn.part.clone()).or_insert(0) += 1;
        let lo = catch_unwind(AssertUnwindSafe(|| udp_exchange(&mut wl, &scn)));
        let io = catch_unwind(AssertUnwindSafe(|| udp_exchange(&mut wi, &scn)));
        let mut rebuild = false;
        match (lo, io) {
            (Ok(lo), io) => {
                if ch_obs.is_none() && lo.frames.len() == 1 && matches!(lowpan_kind(&lo.frames[0]), LowpanKind::Iphc) {
                    // compressed IPv6+UDP header of this job = frame - MAC header - payload
                    ch_obs = mac_hdr_len(&lo.frames[0]).and_then(|m| lo.frames[0].len().checked_sub(m + l));
                }
                let ipo = io.as_ref().ok();
                if ipo.is_none() {
                    acc.machinery.push(format!("reference world panicked: {}", scn.to_json()));
                    rebuild = true;
                }
                let v = eval_udp(&scn, &lo, ipo, ch_obs, acc);
                rebuild |= v.rebuild;
                acc.frames += (lo.frames.len() + lo.back_frames.len()) as u64;
                *acc.frag_hist.entry(lo.frames.len()).or_insert(0) += 1;
                nframes.insert(l, lo.frames.len());
                acc.outcome(format!(
                    "udp {} frames={}",
                    if v.all_delivered { "delivered" } else { "not-delivered" },
                    match lo.frames.len() {
                        0 => "0",
                        1 => "1",
                        2 => "2",
                        3 => "3",
                        4 => "4",
                        _ => "5+",
                    }
                ));
                if sample && acc.samples.len() < 3 {
                    acc.samples.push(json!({"scenario": scn.to_json(), "frames_s_to_r": lo.frames.iter().map(|f| format!("{}: {}", describe_frame(f), hex(f))).collect::<Vec<_>>(),
                        "delivered": lo.udp.iter().map(|o| json!({"len": o.payload.len(), "src": ip6(&o.src), "sport": o.sport, "to": ip6(&o.local)})).collect::<Vec<_>>()}));
                }
            }
            (Err(e), _) => {
                panic_viol(&scn, e, acc, "6LoWPAN world");
                rebuild = true;
            }
        }
        if rebuild {
            match catch_unwind(AssertUnwindSafe(|| world_pair(job, acc))) {
                Ok((a, b)) => {
                    acc.polls += wl.polls + wi.polls;
                    wl = a;
                    wi = b;
                }
                Err(e) => {
                    panic_viol(job, e, acc, "world setup / neighbor discovery");
                    return;
                }
            }
        }
    }
    acc.polls += wl.polls + wi.polls;
    if let Some(p) = pred_unfrag_max {
        if let (Some(&a), Some(&b)) = (nframes.get(&p), nframes.get(&(p + 1))) {
            if a == 1 && b >= 2 {
                acc.boundary_confirmed += 1;
            } else {
                acc.boundary_mispredicted += 1;
                acc.notes.insert(format!("boundary mispredicted (stimulus selection only): {} len {} -> {} frames, len {} -> {} frames", job.to_json(), p, a, p + 1, b));
            }
        }
        let mac = 0;
        let _ = mac;
        acc.thresholds.entry("largest payload sent in one frame".into()).or_default().insert(p);
    }
}

/// "hwchg" part, 6LoWPAN world: one fragmented datagram; after `chg_after` exchange rounds, while
/// fragments are still pending, the sender's hardware address is changed through the public
/// `Interface::set_hardware_addr`. Returns the exchange and whether fragments were pending.
pub fn hwchg_exchange(w: &mut World, scn: &Scn) -> (Out, bool) {
    w.clear_logs();
    w.too_long.clear();
    let d = scn.main_dg(scn.lens[0]);
    let accepted = vec![w.udp_send(scn.dg_src(&d), scn.dg_dst(&d), d.dport, &pattern(d.len, 0))];
    if scn.one_per_poll {
        w.s.per_poll = Some(1);
    }
    for _ in 0..scn.chg_after {
        w.round();
    }
    // pending = the sender still wants an immediate poll (unsent fragments in its buffer)
    let pending = w.s.poll_at(w.now).is_some_and(|t| t <= w.now) && !w.s2r.is_empty();
    if let Some(to) = scn.hw_to {
        w.s.iface.set_hardware_addr(smoltcp::wire::HardwareAddress::Ieee802154(changed_hw(to)));
    }
    let quiescent = w.settle(120 + d.len / 20);
    w.s.per_poll = None;
    w.s.dev.budget = None;
    let h = w.r.udp;
    (
        Out {
            accepted,
            udp: World::udp_drain(&mut w.r, h),
            raw: std::mem::take(&mut w.raw_r),
            frames: std::mem::take(&mut w.s2r),
            back_frames: std::mem::take(&mut w.r2s),
            quiescent,
            too_long: std::mem::take(&mut w.too_long),
            icmp_r: vec![],
        },
        pending,
    )
}

/// "twosock" part: two sockets of the sending interface each queue one datagram before the same
/// poll; both must be reproduced at the receiver (in any order)
pub fn run_twosock(scn: &Scn, acc: &mut Acc) {
    acc.scenarios += 1;
    *acc.per_part.entry(scn.part.clone()).or_insert(0) += 1;
    let r = catch_unwind(AssertUnwindSafe(|| {
        let (mut wl, mut wi) = world_pair(scn, acc);
        let lo = udp_exchange(&mut wl, scn);
        let io = udp_exchange(&mut wi, scn);
        acc.polls += wl.polls + wi.polls;
        (lo, io)
    }));
    match r {
        Ok((lo, io)) => {
            let v = eval_udp(scn, &lo, Some(&io), None, acc);
            acc.frames += (lo.frames.len() + lo.back_frames.len()) as u64;
            let mut echo_ok = true;
            if let (1, Some(f)) = (scn.stim_kind, &scn.first) {
                // the ICMP socket's echo request: exactly once at R's ICMP socket, if in bounds
                let want = {
                    let mut m = echo_request(f.len, 11);
                    m[2] = 0;
                    m[3] = 0;
                    m
                };
                let body = |m: &[u8]| {
                    let mut v = m.to_vec();
                    if v.len() >= 4 {
                        v[2] = 0;
                        v[3] = 0;
                    }
                    v
                };
                let n_lo = lo.icmp_r.iter().filter(|o| body(&o.msg) == want).count();
                let n_ip = io.icmp_r.iter().filter(|o| body(&o.msg) == want).count();
                let cz = cause(scn, 0);
                let ctx = format!(
                    "echo request of {} data octets queued on the sender's ICMP socket before the same poll as a UDP datagram of {} octets: seen {} times by the receiver's ICMP socket (Medium::Ip: {}) | scenario {} | frames S->R:{}",
                    f.len,
                    scn.lens[0],
                    n_lo,
                    n_ip,
                    scn.to_json(),
                    frames_text(&lo.frames, true)
                );
                if lo.icmp_r.iter().any(|o| body(&o.msg) != want) {
                    acc.viol(format!("C20/corrupted/icmp/{}", cz), ctx.clone(), scn);
                }
                if n_lo > 1 {
                    acc.viol(format!("C20/duplicated/icmp/{}", cz), ctx.clone(), scn);
                }
                if n_lo == 0 && n_ip == 1 && delivery_demanded(36, 40, 8 + f.len) {
                    acc.viol(format!("C20/lost/icmp-request/{}", cz), ctx, scn);
                    echo_ok = false;
                }
            }
            acc.outcome(format!(
                "twosock second={} {}",
                if scn.stim_kind == 1 { "icmp" } else { "udp" },
                if v.all_delivered && echo_ok { "all-delivered" } else { "not-all-delivered" }
            ));
        }
        Err(e) => panic_viol(scn, e, acc, "6LoWPAN world (two sockets)"),
    }
}

pub const CLOSED_PORT: u16 = 7777;

/// queue the stimulus on the node in the `r` position, addressed to S's link-local address
pub fn stimulus_send(w: &mut World, scn: &Scn, from_node: usize) -> bool {
    let s_ll = unicast_addr(0, scn.s_hw, AddrClass::LlHw);
    let r_ll = unicast_addr(from_node, scn.r_hw, AddrClass::LlHw);
    if scn.stim_kind == 1 {
        let h = w.r.icmp.unwrap();
        let s = w.r.sockets.get_mut::<icmp::Socket>(h);
        s.send_slice(&echo_request(scn.stim_len, 9), IpAddress::Ipv6(s_ll)).is_ok()
    } else {
        let h = w.r.warm;
        let s = w.r.sockets.get_mut::<smoltcp::socket::udp::Socket>(h);
        let mut meta = smoltcp::socket::udp::UdpMetadata::from(IpEndpoint::new(IpAddress::Ipv6(s_ll), CLOSED_PORT));
        meta.local_address = Some(IpAddress::Ipv6(r_ll));
        s.send_slice(&pattern(scn.stim_len, 7), meta).is_ok()
    }
}

/// frames a third node T emits when it sends the stimulus to S (its neighbor solicitation
/// included: that is how S learns where to send the reply), captured in a world of their own
pub fn capture_third(scn: &Scn) -> Vec<Vec<u8>> {
    let mut w = World::with_peer(&scn.world_cfg(Med::Lowpan), 2);
    stimulus_send(&mut w, scn, 2);
    for attempt in 0..3 {
        if w.settle(120 + scn.stim_len / 20) && w.r2s.len() >= 2 {
            break;
        }
        if attempt < 2 {
            w.now += 1_050_000;
        }
    }
    std::mem::take(&mut w.r2s)
}

/// "ingress" part, 6LoWPAN world: S starts a fragmented datagram; while fragments are pending it
/// receives the stimulus; then everything is polled to quiescence.
pub fn ingress_exchange(w: &mut World, scn: &Scn, third: &[Vec<u8>]) -> (Out, bool) {
    w.clear_logs();
    w.too_long.clear();
    let d = scn.main_dg(scn.lens[0]);
    let accepted = vec![w.udp_send(scn.dg_src(&d), scn.dg_dst(&d), d.dport, &pattern(d.len, 0))];
    if scn.one_per_poll {
        w.s.per_poll = Some(1);
    }
    for _ in 0..scn.chg_after {
        w.round();
    }
    let pending = w.s.poll_at(w.now).is_some_and(|t| t <= w.now) && !w.s2r.is_empty();
    if scn.stim_kind != 0 {
        if scn.stim_third {
            for f in third {
                w.s.dev.rx.push_back(f.clone());
            }
        } else {
            stimulus_send(w, scn, 1);
        }
    }
    if scn.block_rounds > 0 {
        w.s.per_poll = Some(0);
        for _ in 0..scn.block_rounds {
            w.round();
        }
        w.s.per_poll = if scn.one_per_poll { Some(1) } else { None };
        w.s.dev.budget = None;
    }
    let quiescent = w.settle(200 + (d.len + scn.stim_len) / 10);
    w.s.per_poll = None;
    w.s.dev.budget = None;
    let h = w.r.udp;
    // only S's own datagram is judged: frames of tag(s) S opened for it; everything S sent is kept
    (
        Out {
            accepted,
            udp: World::udp_drain(&mut w.r, h),
            raw: std::mem::take(&mut w.raw_r),
            frames: std::mem::take(&mut w.s2r),
            back_frames: std::mem::take(&mut w.r2s),
            quiescent,
            too_long: std::mem::take(&mut w.too_long),
            icmp_r: vec![],
        },
        pending,
    )
}

pub fn run_ingress(scn: &Scn, acc: &mut Acc) {
    acc.scenarios += 1;
    *acc.per_part.entry(scn.part.clone()).or_insert(0) += 1;
    let r = catch_unwind(AssertUnwindSafe(|| {
        let third = if scn.stim_third && scn.stim_kind != 0 { capture_third(scn) } else { vec![] };
        let (mut wl, mut wi) = world_pair(scn, acc);
        let (lo, pending) = ingress_exchange(&mut wl, scn, &third);
        // reference: the same datagram without the disturbance
        let io = udp_exchange(&mut wi, scn);
        acc.polls += wl.polls + wi.polls;
        (lo, io, pending, third.len())
    }));
    match r {
        Ok((lo, io, pending, nthird)) => {
            if scn.stim_third && scn.stim_kind != 0 && nthird < 2 {
                acc.machinery.push(format!("third node's stimulus could not be captured: {}", scn.to_json()));
            }
            let v = eval_udp(scn, &lo, Some(&io), None, acc);
            acc.frames += (lo.frames.len() + lo.back_frames.len()) as u64;
            acc.outcome(format!(
                "ingress {} from {} fragments-pending-at-arrival={} {}",
                match scn.stim_kind {
                    1 => "echo-request",
                    2 => "udp-to-closed-port",
                    _ => "nothing",
                },
                if scn.stim_third { "third-node" } else { "peer" },
                pending,
                if v.all_delivered { "delivered" } else { "not-delivered" }
            ));
        }
        Err(e) => panic_viol(scn, e, acc, "6LoWPAN world (ingress while fragments pending)"),
    }
}

pub fn run_hwchg(scn: &Scn, acc: &mut Acc) {
    acc.scenarios += 1;
    *acc.per_part.entry(scn.part.clone()).or_insert(0) += 1;
    let r = catch_unwind(AssertUnwindSafe(|| {
        let (mut wl, mut wi) = world_pair(scn, acc);
        let (lo, pending) = hwchg_exchange(&mut wl, scn);
        // the reference world has no link layer: same datagram, no operation
        let io = udp_exchange(&mut wi, scn);
        acc.polls += wl.polls + wi.polls;
        (lo, io, pending)
    }));
    match r {
        Ok((lo, io, pending)) => {
            let v = eval_udp(scn, &lo, Some(&io), None, acc);
            acc.frames += (lo.frames.len() + lo.back_frames.len()) as u64;
            acc.outcome(format!(
                "hwchg {}->{} fragments-pending-at-change={} {}",
                scn.s_hw.name(),
                scn.hw_to.map(|h| h.name()).unwrap_or("-"),
                pending,
                if v.all_delivered { "delivered" } else { "not-delivered" }
            ));
        }
        Err(e) => panic_viol(scn, e, acc, "6LoWPAN world (hardware address change)"),
    }
}

/// back-to-back part: both datagrams are queued on the sender's socket before the first poll
pub fn run_b2b(scn: &Scn, acc: &mut Acc) {
    acc.scenarios += 1;
    *acc.per_part.entry(scn.part.clone()).or_insert(0) += 1;
    let r = catch_unwind(AssertUnwindSafe(|| {
        let (mut wl, mut wi) = world_pair(scn, acc);
        let lo = udp_exchange(&mut wl, scn);
        let io = udp_exchange(&mut wi, scn);
        acc.polls += wl.polls + wi.polls;
        (lo, io)
    }));
    match r {
        Ok((lo, io)) => {
            let v = eval_udp(scn, &lo, Some(&io), None, acc);
            acc.frames += (lo.frames.len() + lo.back_frames.len()) as u64;
            acc.outcome(format!("{} {} datagrams-needing-fragmentation={}", scn.part, if v.all_delivered { "both-delivered" } else { "not-both-delivered" }, v.nfrag1));
        }
        Err(e) => panic_viol(scn, e, acc, "6LoWPAN world (back to back)"),
    }
}

// ---------------------------------------------------------------------------------------
// fragment order part
// ---------------------------------------------------------------------------------------

pub fn perms(n: usize) -> Vec<Vec<usize>> {
    fn rec(cur: &mut Vec<usize>, used: &mut Vec<bool>, n: usize, out: &mut Vec<Vec<usize>>) {
        if cur.len() == n {
            out.push(cur.clone());
            return;
        }
        for i in 0..n {
            if !used[i] {
                used[i] = true;
                cur.push(i);
                rec(cur, used, n, out);
                cur.pop();
                used[i] = false;
            }
        }
    }
    let mut out = vec![];
    rec(&mut vec![], &mut vec![false; n], n, &mut out);
    out
}
/// all permutations; for n <= 3 additionally every permutation with one fragment delivered twice
pub fn sequences(n: usize) -> Vec<Vec<usize>> {
    let mut set: BTreeSet<Vec<usize>> = BTreeSet::new();
    for p in perms(n) {
        set.insert(p.clone());
        if n <= 3 {
            for d in 0..n {
                for pos in 0..=n {
                    let mut q = p.clone();
                    q.insert(pos, d);
                    set.insert(q);
                }
            }
        }
    }
    set.into_iter().collect()
}

pub fn order_class(order: &[usize], n: usize) -> String {
    let mut seen = BTreeSet::new();
    let firsts: Vec<usize> = order.iter().copied().filter(|i| seen.insert(*i)).collect();
    let in_order = firsts == (0..n).collect::<Vec<_>>();
    let dup = order.len() > n;
    let frag1_first = order.first() == Some(&0);
    format!("order={}{}", if in_order { "in-order" } else if frag1_first { "frag1-first" } else { "fragn-first" }, if dup { "+dup" } else { "" })
}

/// deliver `frames[order]` to a FRESH receiver and return what its sockets saw
pub fn deliver_fresh(scn: &Scn, prior: &[Vec<u8>], frames: &[Vec<u8>], order: &[usize]) -> (Vec<UdpObs>, Vec<Vec<u8>>, usize) {
    let cfg = scn.world_cfg(Med::Lowpan);
    let mut w = World::new(&cfg);
    w.udp_rebind(scn.sport, scn.dport, scn.hl);
    // "warmed-up" receiver: an earlier datagram (scn.first) reassembled in order first; without
    // it the permuted set below is the first reassembly in this interface's life
    if !prior.is_empty() {
        for f in prior {
            w.r.dev.rx.push_back(f.clone());
            w.r.poll(w.now);
            w.now += STEP_US;
        }
        let h = w.r.udp;
        let _ = World::udp_drain(&mut w.r, h);
        let s = w.r.sockets.get_mut::<smoltcp::socket::raw::Socket>(w.r.raw);
        while s.recv().is_ok() {}
    }
    for &i in order {
        w.r.dev.rx.push_back(frames[i].clone());
        w.r.poll(w.now);
        w.now += STEP_US;
    }
    w.r.poll(w.now);
    let out_frames = w.r.dev.take_tx().len();
    let mut raw = vec![];
    {
        let s = w.r.sockets.get_mut::<smoltcp::socket::raw::Socket>(w.r.raw);
        while let Ok(p) = s.recv() {
            raw.push(p.to_vec());
        }
    }
    let h = w.r.udp;
    (World::udp_drain(&mut w.r, h), raw, out_frames)
}

pub fn eval_perm(scn: &Scn, prior: &[Vec<u8>], frames: &[Vec<u8>], acc: &mut Acc) {
    let (src, dst) = (scn.src_addr().octets(), scn.dst_addr().octets());
    let exp = UdpObs { payload: pattern(scn.lens[0], PERM_SALT), src, sport: scn.sport, local: dst };
    let n = frames.len();
    let frag1_first = scn.order.first() == Some(&0);
    let oc = order_class(&scn.order, n);
    let r = catch_unwind(AssertUnwindSafe(|| deliver_fresh(scn, prior, frames, &scn.order)));
    acc.perm_sequences += 1;
    let ctx = |extra: &str| -> String {
        format!("{} | scenario {} | captured fragments:{}", extra, scn.to_json(), frames_text(frames, true))
    };
    match r {
        Err(e) => panic_viol(scn, e, acc, "receiver fed with permuted fragments"),
        Ok((obs, _raw, _)) => {
            let good = obs.iter().filter(|o| **o == exp).count();
            let bad = obs.len() - good;
            if bad > 0 {
                let o = obs.iter().find(|o| **o != exp).unwrap();
                acc.viol(
                    format!("C20/perm-corrupted/udp/{}|{}", oc, cause(scn, 0)),
                    ctx(&format!(
                        "fragments delivered in order {:?}: receiver's socket delivered something that is not the original datagram: {} bytes from [{}]:{} (first difference at payload byte {:?})",
                        scn.order,
                        o.payload.len(),
                        ip6(&o.src),
                        o.sport,
                        o.payload.iter().zip(exp.payload.iter()).position(|(a, b)| a != b)
                    )),
                    scn,
                );
            }
            if good > 1 {
                acc.viol(format!("C20/perm-duplicated/udp/{}|{}", oc, cause(scn, 0)), ctx(&format!("order {:?}: the datagram was delivered {} times", scn.order, good)), scn);
            }
            // "any fragment arrival order the reassembler can track": smoltcp's reassembler places a
            // FRAGN at its offset whether or not FRAG1 has arrived (process_sixlowpan_fragment ->
            // PacketAssembler::add), for every order and duplicate of <= 4 fragments (at most 2
            // holes, ASSEMBLER_MAX_SEGMENT_COUNT = 4), on a fresh receiver and on one that has
            // reassembled before. All of these orders are therefore tracked and delivery is
            // demanded for each of them.
            if good == 0 {
                acc.viol(
                    format!("C20/perm-lost/udp/{}|{}", oc, cause(scn, 0)),
                    ctx(&format!(
                        "order {:?}: datagram of {} bytes was not delivered to a receiver that {}",
                        scn.order,
                        scn.lens[0],
                        if prior.is_empty() { "had never reassembled anything".to_string() } else { format!("had reassembled one datagram ({} fragments) before", prior.len()) }
                    )),
                    scn,
                );
            }
            if good >= 1 {
                if frag1_first {
                    acc.perm_delivered_frag1_first += 1;
                } else {
                    acc.perm_delivered_other_order += 1;
                }
            } else if !frag1_first {
                acc.perm_undelivered_other_order += 1;
            }
            acc.outcome(format!("perm n={} {} delivered={}", n, oc, good.min(2)));
        }
    }
}

/// payload pattern salt of the permuted datagram (the prior datagram uses salt 0)
pub const PERM_SALT: usize = 5;

/// Capture, from a live sender, the frames of the prior datagram (`scn.first`, if any) and of
/// the datagram to permute. Returns (prior frames, frames, in-order delivery between the live
/// pair worked, warm-up ok, polls).
pub fn perm_capture(scn: &Scn) -> (Vec<Vec<u8>>, Vec<Vec<u8>>, bool, bool, u64) {
    let mut w = World::new(&scn.world_cfg(Med::Lowpan));
    let warm = prepare(&mut w, scn);
    w.udp_rebind(scn.sport, scn.dport, scn.hl);
    let (src, dst) = (scn.src_addr(), scn.dst_addr());
    let mut prior = vec![];
    if let Some(f) = &scn.first {
        w.clear_logs();
        w.udp_send(src, dst, scn.dport, &pattern(f.len, 0));
        w.settle(80 + f.len / 30);
        prior = std::mem::take(&mut w.s2r);
        let h = w.r.udp;
        let _ = World::udp_drain(&mut w.r, h);
    }
    w.clear_logs();
    w.too_long.clear();
    w.udp_send(src, dst, scn.dport, &pattern(scn.lens[0], PERM_SALT));
    w.settle(80 + scn.lens[0] / 30);
    let frames = std::mem::take(&mut w.s2r);
    let h = w.r.udp;
    let got = World::udp_drain(&mut w.r, h);
    let ok = got.len() == 1 && got[0].payload == pattern(scn.lens[0], PERM_SALT);
    (prior, frames, ok, warm, w.polls)
}

/// capture the fragments of one datagram, then try every order on fresh receivers
pub fn run_perm(scn: &Scn, acc: &mut Acc) {
    let r = catch_unwind(AssertUnwindSafe(|| perm_capture(scn)));
    let (prior, frames, exp_ok, polls) = match r {
        Ok((prior, frames, ok, warm, p)) => {
            if !warm {
                acc.warm_fail += 1;
            }
            (prior, frames, ok, p)
        }
        Err(e) => {
            panic_viol(scn, e, acc, "6LoWPAN world (capturing fragments)");
            return;
        }
    };
    acc.worlds += 1;
    acc.polls += polls;
    let n = frames.len();
    let all_frag = frames.iter().enumerate().all(|(i, f)| match lowpan_kind(f) {
        LowpanKind::Frag1 { .. } => i == 0,
        LowpanKind::FragN { .. } => i > 0,
        _ => false,
    });
    if !(2..=4).contains(&n) || !all_frag {
        return;
    }
    if !exp_ok {
        // the in-order delivery between the live pair already fails: reported by the udp part
        acc.perm_skipped_base_fails += 1;
        return;
    }
    acc.scenarios += 1;
    *acc.per_part.entry("perm".into()).or_insert(0) += 1;
    for seq in sequences(n) {
        let mut s = scn.clone();
        s.order = seq;
        eval_perm(&s, &prior, &frames, acc);
        acc.frames += s.order.len() as u64;
    }
}

// ---------------------------------------------------------------------------------------
// ICMPv6 echo
// ---------------------------------------------------------------------------------------

pub struct IcmpOut {
    pub accepted: bool,
    pub r_obs: Vec<IcmpObs>,
    pub s_obs: Vec<IcmpObs>,
    pub raw_r: Vec<Vec<u8>>,
    pub raw_s: Vec<Vec<u8>>,
    pub frames: Vec<Vec<u8>>,
    pub back_frames: Vec<Vec<u8>>,
    pub too_long: Vec<(char, Vec<u8>)>,
}

pub fn echo_request(len: usize, seq: u16) -> Vec<u8> {
    let mut m = vec![128u8, 0, 0, 0];
    m.extend_from_slice(&ICMP_IDENT.to_be_bytes());
    m.extend_from_slice(&seq.to_be_bytes());
    m.extend_from_slice(&pattern(len, seq as usize));
    m
}

pub fn icmp_exchange(w: &mut World, scn: &Scn) -> IcmpOut {
    w.clear_logs();
    w.too_long.clear();
    let dst = scn.dst_addr();
    let len = scn.lens[0];
    let accepted = {
        let h = w.s.icmp.unwrap();
        let s = w.s.sockets.get_mut::<icmp::Socket>(h);
        s.set_hop_limit(Some(scn.hl));
        s.send_slice(&echo_request(len, 7), IpAddress::Ipv6(dst)).is_ok()
    };
    w.settle(120 + len / 15);
    let echo_only = |v: Vec<Vec<u8>>| -> Vec<Vec<u8>> { v.into_iter().filter(|p| p.len() > 40 && (p[40] == 128 || p[40] == 129)).collect() };
    IcmpOut {
        accepted,
        r_obs: World::icmp_drain(&mut w.r),
        s_obs: World::icmp_drain(&mut w.s),
        raw_r: echo_only(std::mem::take(&mut w.raw_r)),
        raw_s: echo_only(std::mem::take(&mut w.raw_s)),
        frames: std::mem::take(&mut w.s2r),
        back_frames: std::mem::take(&mut w.r2s),
        too_long: std::mem::take(&mut w.too_long),
    }
}

/// type/code/ident/seq/data of an echo message, checksum masked (the ICMP socket re-emits the
/// message and recomputes the checksum itself)
fn echo_body(m: &[u8]) -> Vec<u8> {
    let mut v = m.to_vec();
    if v.len() >= 4 {
        v[2] = 0;
        v[3] = 0;
    }
    v
}

pub fn run_icmp(scn: &Scn, acc: &mut Acc) {
    acc.scenarios += 1;
    *acc.per_part.entry("icmp".into()).or_insert(0) += 1;
    let r = catch_unwind(AssertUnwindSafe(|| {
        let (mut wl, mut wi) = world_pair(scn, acc);
        let lo = icmp_exchange(&mut wl, scn);
        let io = icmp_exchange(&mut wi, scn);
        acc.polls += wl.polls + wi.polls;
        (lo, io, wl.s.addrs.clone(), wl.r.addrs.clone())
    }));
    let (lo, io, s_addrs, r_addrs) = match r {
        Ok(x) => x,
        Err(e) => {
            panic_viol(scn, e, acc, "6LoWPAN world (ICMPv6 echo)");
            return;
        }
    };
    let len = scn.lens[0];
    let cz = cause(scn, 0);
    let ctx = |extra: &str| -> String {
        format!(
            "{} | scenario {} | echo to {} data={} bytes hl={} | frames S->R:{}\n frames R->S:{}",
            extra,
            scn.to_json(),
            scn.dst_addr(),
            len,
            scn.hl,
            frames_text(&lo.frames, true),
            frames_text(&lo.back_frames, true)
        )
    };
    for (dir, f) in &lo.too_long {
        acc.viol(format!("C20/frame-too-long/icmp/{}", cz), ctx(&format!("{} handed a {}-octet frame to its 802.15.4 device: {}", dir, f.len(), hex(f))), scn);
    }
    acc.frames += (lo.frames.len() + lo.back_frames.len()) as u64;
    *acc.frag_hist.entry(lo.frames.len()).or_insert(0) += 1;
    if !lo.accepted {
        acc.outcome("icmp not-accepted-by-socket".into());
        acc.notes.insert(format!("icmp socket refused the request: len={}", len));
        return;
    }
    acc.datagrams += 2;
    // request and reply must both fit; 36 = the largest IPHC header this harness can produce
    // (2 + next header + hop limit + two in-line addresses), so this is the lenient side
    let inb = if scn.dst.is_mcast() {
        delivery_demanded(36, 40, 8 + len)
    } else {
        // unicast: the reply carries the same two addresses swapped, i.e. the same header size.
        // The stack selects the source itself among S's addresses: take the largest header any
        // of them gives (lenient side).
        let mut ch = 0;
        for src in [AddrClass::LlHw, scn.src, scn.dst] {
            ch = ch.max(hdr_sizes(scn.s_hw, scn.r_hw, src, scn.dst, 0, 0, 7, Proto::Icmp).1);
        }
        delivery_demanded(ch, 40, 8 + len)
    };
    if !inb {
        acc.beyond_bounds += 2;
    }
    let req = echo_body(&echo_request(len, 7));
    let mut rep = req.clone();
    rep[0] = 129;
    // safety
    let mut ok = true;
    for o in &lo.r_obs {
        if echo_body(&o.msg) != req || !s_addrs.iter().any(|a| a.octets() == o.src) {
            acc.viol(format!("C20/corrupted/icmp/{}", cz), ctx(&format!("receiver's ICMP socket got a message that was not sent: from {} {}", ip6(&o.src), hex(&o.msg[..o.msg.len().min(48)]))), scn);
            ok = false;
        }
    }
    for o in &lo.s_obs {
        let src_ok = if scn.dst.is_mcast() { r_addrs.iter().any(|a| a.octets() == o.src) } else { o.src == scn.dst_addr().octets() };
        if echo_body(&o.msg) != rep || !src_ok {
            acc.viol(format!("C20/corrupted/icmp/{}", cz), ctx(&format!("sender's ICMP socket got a reply that does not mirror the request: from {} {}", ip6(&o.src), hex(&o.msg[..o.msg.len().min(48)]))), scn);
            ok = false;
        }
    }
    if lo.r_obs.len() > 1 || lo.s_obs.len() > 1 {
        acc.viol(format!("C20/duplicated/icmp/{}", cz), ctx(&format!("request seen {} times, reply seen {} times", lo.r_obs.len(), lo.s_obs.len())), scn);
        ok = false;
    }
    let ip_ok = io.r_obs.len() == 1 && io.s_obs.len() == 1;
    if inb {
        if lo.r_obs.is_empty() {
            acc.viol(format!("C20/lost/icmp-request/{}", cz), ctx("echo request accepted by the sender's ICMP socket never reached the receiver's ICMP socket"), scn);
            ok = false;
        } else if lo.s_obs.is_empty() {
            acc.viol(
                format!("C20/lost/icmp-reply/{}", cz),
                ctx(&format!("echo request was delivered but the echo reply never reached the sender's ICMP socket (reference world: {} replies)", io.s_obs.len())),
                scn,
            );
            ok = false;
        }
        if !ip_ok {
            if acc.machinery.len() < 20 {
                acc.machinery.push(format!("reference world: echo not answered: {}", scn.to_json()));
            }
        } else if ok {
            acc.delivered += 2;
            if lo.r_obs != io.r_obs || lo.s_obs != io.s_obs {
                acc.viol(format!("C20/differs-from-ip-medium/icmp/socket-observations/{}", cz), ctx("ICMP socket observations differ between the media"), scn);
            }
            for (which, l, i) in [("request", &lo.raw_r, &io.raw_r), ("reply", &lo.raw_s, &io.raw_s)] {
                let lr: Vec<RawDgram> = l.iter().filter_map(|p| parse_raw(p)).collect();
                let ir: Vec<RawDgram> = i.iter().filter_map(|p| parse_raw(p)).collect();
                if lr.len() != ir.len() {
                    acc.viol(format!("C20/differs-from-ip-medium/icmp/datagram-count/{}", cz), ctx(&format!("{}: {} vs {} datagrams", which, lr.len(), ir.len())), scn);
                    continue;
                }
                for (a, b) in lr.iter().zip(ir.iter()) {
                    for fld in raw_diff(a, b, Proto::Icmp) {
                        acc.viol(
                            format!("C20/differs-from-ip-medium/icmp/{}", fld),
                            ctx(&format!("echo {}: reconstructed datagram differs in `{}`: 6LoWPAN hl={} plen={} vs IP hl={} plen={}", which, fld, a.hl, a.plen, b.hl, b.plen)),
                            scn,
                        );
                    }
                }
            }
        }
    }
    acc.outcome(format!("icmp request={} reply={} frames={}", lo.r_obs.len(), lo.s_obs.len(), if lo.frames.len() > 4 { "5+".to_string() } else { lo.frames.len().to_string() }));
}

// ---------------------------------------------------------------------------------------
// TCP
// ---------------------------------------------------------------------------------------

pub struct TcpOut {
    pub r_rx: Vec<u8>,
    pub s_rx: Vec<u8>,
    pub s_state: String,
    pub r_state: String,
    pub done: bool,
    pub t_end: i64,
    pub frames: usize,
    pub raw_r: Vec<Vec<u8>>,
    pub too_long: Vec<(char, Vec<u8>)>,
    pub sample_frames: Vec<Vec<u8>>,
    pub log_s2r: Vec<Vec<u8>>,
    pub log_r2s: Vec<Vec<u8>>,
}

pub const TCP_HORIZON_US: i64 = 40_000_000;

pub fn tcp_run(w: &mut World, scn: &Scn) -> TcpOut {
    w.clear_logs();
    w.too_long.clear();
    let n = scn.lens[0];
    let data_s = pattern(n, 1);
    let data_r = pattern(n, 2);
    let (src, dst) = (scn.src_addr(), scn.dst_addr());
    let hs = w.s.tcp.unwrap();
    let hr = w.r.tcp.unwrap();
    {
        let r = w.r.sockets.get_mut::<tcp::Socket>(hr);
        r.listen(scn.dport).unwrap();
        let s = w.s.sockets.get_mut::<tcp::Socket>(hs);
        s.set_hop_limit(Some(scn.hl));
        s.connect(
            w.s.iface.context(),
            IpEndpoint::new(IpAddress::Ipv6(dst), scn.dport),
            IpListenEndpoint { addr: Some(IpAddress::Ipv6(src)), port: scn.sport },
        )
        .unwrap();
    }
    let (mut sent_s, mut sent_r) = (0usize, 0usize);
    let (mut closed_s, mut closed_r) = (false, false);
    let (mut r_rx, mut s_rx) = (vec![], vec![]);
    let mut frames = 0usize;
    let mut raw_r = vec![];
    let mut sample_frames = vec![];
    let (mut log_s2r, mut log_r2s): (Vec<Vec<u8>>, Vec<Vec<u8>>) = (vec![], vec![]);
    let mut done = false;
    let mut steps = 0;
    while w.now < TCP_HORIZON_US && steps < 200_000 {
        steps += 1;
        // application steps, to a fixpoint
        loop {
            let mut prog = false;
            {
                let s = w.s.sockets.get_mut::<tcp::Socket>(hs);
                if sent_s < n && s.can_send() {
                    let k = s.send_slice(&data_s[sent_s..]).unwrap_or(0);
                    sent_s += k;
                    prog |= k > 0;
                }
                if sent_s == n && !closed_s && s.may_send() {
                    s.close();
                    closed_s = true;
                    prog = true;
                }
                while s.can_recv() {
                    let k = s.recv(|b| (b.len(), b.to_vec())).unwrap_or_default();
                    if k.is_empty() {
                        break;
                    }
                    s_rx.extend_from_slice(&k);
                    prog = true;
                }
            }
            {
                let r = w.r.sockets.get_mut::<tcp::Socket>(hr);
                if sent_r < n && r.can_send() {
                    let k = r.send_slice(&data_r[sent_r..]).unwrap_or(0);
                    sent_r += k;
                    prog |= k > 0;
                }
                while r.can_recv() {
                    let k = r.recv(|b| (b.len(), b.to_vec())).unwrap_or_default();
                    if k.is_empty() {
                        break;
                    }
                    r_rx.extend_from_slice(&k);
                    prog = true;
                }
                // R closes once it has seen S's FIN and queued all of its own data
                if sent_r == n && !closed_r && r.state() == tcp::State::CloseWait {
                    r.close();
                    closed_r = true;
                    prog = true;
                }
            }
            if !prog {
                break;
            }
        }
        let moved = w.round();
        frames += w.s2r.len() + w.r2s.len();
        if sample_frames.len() < 6 {
            sample_frames.extend(w.s2r.iter().take(6 - sample_frames.len()).cloned());
        }
        if log_s2r.len() < 4000 {
            log_s2r.append(&mut w.s2r);
        }
        if log_r2s.len() < 4000 {
            log_r2s.append(&mut w.r2s);
        }
        w.s2r.clear();
        w.r2s.clear();
        raw_r.append(&mut w.raw_r);
        w.raw_s.clear();
        let st_s = w.s.sockets.get::<tcp::Socket>(hs).state();
        let st_r = w.r.sockets.get::<tcp::Socket>(hr).state();
        let fin = |s: tcp::State| matches!(s, tcp::State::Closed | tcp::State::TimeWait);
        if closed_s && closed_r && fin(st_s) && fin(st_r) {
            done = true;
            break;
        }
        if st_s == tcp::State::Closed && st_r == tcp::State::Closed {
            break;
        }
        if !moved {
            // nothing in flight: jump to the next timer
            let a = w.s.poll_at(w.now);
            let b = w.r.poll_at(w.now);
            let next = match (a, b) {
                (Some(x), Some(y)) => Some(x.min(y)),
                (x, None) => x,
                (None, y) => y,
            };
            match next {
                Some(t) if t > w.now => w.now = t,
                Some(_) => {}
                None => break,
            }
        }
    }
    // whatever arrived together with the final state change
    {
        let s = w.s.sockets.get_mut::<tcp::Socket>(hs);
        while s.can_recv() {
            let k = s.recv(|b| (b.len(), b.to_vec())).unwrap_or_default();
            if k.is_empty() {
                break;
            }
            s_rx.extend_from_slice(&k);
        }
        let r = w.r.sockets.get_mut::<tcp::Socket>(hr);
        while r.can_recv() {
            let k = r.recv(|b| (b.len(), b.to_vec())).unwrap_or_default();
            if k.is_empty() {
                break;
            }
            r_rx.extend_from_slice(&k);
        }
    }
    TcpOut {
        log_s2r,
        log_r2s,
        r_rx,
        s_rx,
        s_state: format!("{}", w.s.sockets.get::<tcp::Socket>(hs).state()),
        r_state: format!("{}", w.r.sockets.get::<tcp::Socket>(hr).state()),
        done,
        t_end: w.now,
        frames,
        raw_r,
        too_long: std::mem::take(&mut w.too_long),
        sample_frames,
    }
}

pub fn run_tcp(scn: &Scn, acc: &mut Acc) {
    acc.scenarios += 1;
    *acc.per_part.entry("tcp".into()).or_insert(0) += 1;
    let r = catch_unwind(AssertUnwindSafe(|| {
        let (mut wl, mut wi) = world_pair(scn, acc);
        let lo = tcp_run(&mut wl, scn);
        let io = tcp_run(&mut wi, scn);
        acc.polls += wl.polls + wi.polls;
        (lo, io)
    }));
    let (lo, io) = match r {
        Ok(x) => x,
        Err(e) => {
            panic_viol(scn, e, acc, "6LoWPAN world (TCP)");
            return;
        }
    };
    let n = scn.lens[0];
    let cz = cause(scn, 0);
    let ctx = |extra: &str| -> String {
        format!(
            "{} | scenario {} | {} bytes each way | 6LoWPAN: S={} R={} done={} t={}us frames={} rx(R)={} rx(S)={} | IP: S={} R={} done={} t={}us frames={} | first frames S->R:{}",
            extra,
            scn.to_json(),
            n,
            lo.s_state,
            lo.r_state,
            lo.done,
            lo.t_end,
            lo.frames,
            lo.r_rx.len(),
            lo.s_rx.len(),
            io.s_state,
            io.r_state,
            io.done,
            io.t_end,
            io.frames,
            frames_text(&lo.sample_frames, true)
        )
    };
    acc.frames += lo.frames as u64;
    acc.interrupted |= interrupted(&lo.log_s2r) || interrupted(&lo.log_r2s);
    for (dir, f) in &lo.too_long {
        acc.viol(format!("C20/frame-too-long/tcp/{}", cz), ctx(&format!("{} handed a {}-octet frame to its 802.15.4 device: {}", dir, f.len(), hex(f))), scn);
    }
    let (ds, dr) = (pattern(n, 1), pattern(n, 2));
    // safety: delivered bytes are a prefix of what was written
    if !ds.starts_with(&lo.r_rx) {
        acc.viol(format!("C20/corrupted/tcp/{}", cz), ctx("bytes delivered to the receiver are not a prefix of the bytes the sender wrote"), scn);
    }
    if !dr.starts_with(&lo.s_rx) {
        acc.viol(format!("C20/corrupted/tcp/{}", cz), ctx("bytes delivered to the sender are not a prefix of the bytes the receiver wrote"), scn);
    }
    let ip_ok = io.done && io.r_rx == ds && io.s_rx == dr;
    if !ip_ok {
        if acc.machinery.len() < 20 {
            acc.machinery.push(format!("reference world: TCP exchange did not complete: {} S={} R={}", scn.to_json(), io.s_state, io.r_state));
        }
    } else {
        acc.datagrams += 1;
        if !(lo.done && lo.r_rx == ds && lo.s_rx == dr) {
            acc.viol(
                format!("C20/lost/tcp/{}", cz),
                ctx(&format!("the same connection completes over Medium::Ip but not over 6LoWPAN within {} s of simulated time", TCP_HORIZON_US / 1_000_000)),
                scn,
            );
        } else {
            acc.delivered += 1;
            if lo.s_state != io.s_state || lo.r_state != io.r_state {
                acc.viol(format!("C20/differs-from-ip-medium/tcp/final-state/{}", cz), ctx("final socket states differ"), scn);
            }
        }
    }
    // every segment R's interface reconstructed carries the hop limit / addresses S used
    for p in &lo.raw_r {
        if let Some(d) = parse_raw(p) {
            let mut bad = vec![];
            if d.hl != scn.hl {
                bad.push("hop-limit");
            }
            if d.src != scn.src_addr().octets() {
                bad.push("src-addr");
            }
            if d.dst != scn.dst_addr().octets() {
                bad.push("dst-addr");
            }
            if d.plen != d.l4.len() {
                bad.push("payload-length");
            }
            for b in bad {
                acc.viol(
                    format!("C20/datagram-differs/tcp/{}", b),
                    ctx(&format!("a TCP segment reconstructed by the receiving interface has {}: {} -> {} hl={} plen={} (l4 {} bytes)", b, ip6(&d.src), ip6(&d.dst), d.hl, d.plen, d.l4.len())),
                    scn,
                );
            }
        }
    }
    acc.outcome(format!("tcp mtu={} done={} S={} R={}", scn.mtu, lo.done, lo.s_state, lo.r_state));
}

// ---------------------------------------------------------------------------------------
// MLD report probe: an ICMPv6 datagram the stack itself generates on this medium
// ---------------------------------------------------------------------------------------

pub fn run_mld(acc: &mut Acc) {
    let mut scn = Scn::base("mld");
    scn.dst = AddrClass::Mc8;
    acc.scenarios += 1;
    *acc.per_part.entry("mld".into()).or_insert(0) += 1;
    let r = catch_unwind(AssertUnwindSafe(|| {
        let mut cfg = scn.world_cfg(Med::Lowpan);
        cfg.r_any_ip = false;
        cfg.r_join.clear();
        let mut w = World::new(&cfg);
        w.r.iface.join_multicast_group(dst_addr(HwKind::Ext, AddrClass::Mc8)).map_err(|e| format!("{:?}", e))?;
        w.settle(20);
        Ok::<usize, String>(w.r2s.len())
    }));
    match r {
        Ok(Ok(n)) => acc.outcome(format!("mld join emitted {} frames", n.min(3))),
        Ok(Err(e)) => acc.machinery.push(format!("join_multicast_group failed: {}", e)),
        Err(e) => {
            let site = panic_site();
            acc.viol(
                format!("C20/panic/{}", site),
                format!(
                    "an 802.15.4 interface that joins ff02::fb (Interface::join_multicast_group + poll) panics while compressing its own MLDv2 report (ICMPv6 behind a hop-by-hop header): {} at {} | scenario {}",
                    panic_msg(e),
                    last_panic_loc(),
                    scn.to_json()
                ),
                &scn,
            );
            acc.outcome("mld join panics".into());
        }
    }
}
