//! Two REAL smoltcp interfaces (S = sender, R = receiver) joined by an in-memory network, on
//! either `Medium::Ieee802154` (6LoWPAN compression + fragmentation) or `Medium::Ip` (reference
//! world: same sockets, same addresses, no compression). Everything here is stimulus / plumbing;
//! the oracles live in `scen.rs`.

use smoltcp::iface::{Config, Interface, SocketHandle, SocketSet};
use smoltcp::phy::{self, Device, DeviceCapabilities, Medium};
use smoltcp::socket::{icmp, raw, tcp, udp};
use smoltcp::time::Instant;
use std::collections::VecDeque;
use smoltcp::wire::{
    HardwareAddress, Ieee802154Address, Ieee802154Pan, IpAddress, IpCidr, IpEndpoint, IpProtocol,
    IpVersion, Ipv6Address, SixlowpanAddressContext,
};

pub const STEP_US: i64 = 100;
pub const PAN: u16 = 0xbeef;
pub const WARM_PORT: u16 = 9;
pub const ICMP_IDENT: u16 = 0x4242;
/// 802.15.4 aMaxPHYPacketSize is 127 octets INCLUDING the 2-octet FCS. smoltcp hands frames to the
/// device WITHOUT FCS (pcap link type `Ieee802154WithoutFcs`, Linux raw socket MTU 123+2), and
/// `dispatch_sixlowpan` budgets 125 octets. So a frame handed to the device must be <= 125.
pub const MAX_FRAME_NO_FCS: usize = 125;

#[derive(Clone, Copy, PartialEq, Eq, Debug, PartialOrd, Ord, Hash)]
pub enum Med {
    Lowpan,
    Ip,
}

#[derive(Clone, Copy, PartialEq, Eq, Debug, PartialOrd, Ord, Hash)]
pub enum HwKind {
    Ext,
    Short,
}
impl HwKind {
    pub fn name(self) -> &'static str {
        match self {
            HwKind::Ext => "ext",
            HwKind::Short => "short",
        }
    }
    pub fn from_name(s: &str) -> HwKind {
        if s == "short" {
            HwKind::Short
        } else {
            HwKind::Ext
        }
    }
}

#[derive(Clone, Copy, PartialEq, Eq, Debug, PartialOrd, Ord, Hash)]
pub enum AddrClass {
    /// fe80::/64 + IID derived from the node's own link-layer address (fully elidable)
    LlHw,
    /// fe80::ff:fe00:XXXX where XXXX is NOT the node's short address (16 bits in-line)
    Ll16,
    /// fe80::/64 + arbitrary IID (64 bits in-line)
    Ll64,
    /// 2001:db8:0:1::/64 + IID (not compressible statelessly)
    Global,
    /// fd00:0:0:aa::/64 + IID derived from the link-layer address; the /64 is installed as
    /// 6LoWPAN address context 0 on both nodes
    Ctx,
    /// fe80:0:0:1::/64 + IID: inside fe80::/10 but NOT in fe80::/64, so not a link-local address
    /// RFC 6282 stateless compression may elide the prefix of
    LlWideA,
    /// fe90::/64 + 0000:00ff:fe00:XXXX: inside fe80::/10, looks like the short-address form
    LlWideB,
    /// ff02::1
    McAllNodes,
    /// ff02::1:ffXX:XXXX of the receiver's LlHw address (48-bit multicast form)
    McSolicited,
    /// ff02::fb (8-bit form)
    Mc8,
    /// ff05::1:3 (32-bit form)
    Mc32,
    /// ff0e::1:ff00:1234 (48-bit form, non link-local scope)
    Mc48,
    /// ff05:0:0:1:2:3:4:5 (no compressed form: 128 bits in-line)
    McFull,
    /// ff35::/16 group whose FIRST non-zero octet (after the flags/scope octet) is octet k = 0x80,
    /// last two octets 0x12 0x34 (k in 2..=13): walks across the boundaries of the 48-bit, 32-bit
    /// and in-line multicast forms (e.g. k=12: ff35::8000:1234, an RFC 3307 dynamic group id).
    /// The receiver JOINS these groups (Interface::join_multicast_group).
    McK(u8),
}
pub const UNICAST_CLASSES: [AddrClass; 7] =
    [AddrClass::LlHw, AddrClass::Ll16, AddrClass::Ll64, AddrClass::Global, AddrClass::Ctx, AddrClass::LlWideA, AddrClass::LlWideB];
pub const MCAST_CLASSES: [AddrClass; 18] = [
    AddrClass::McAllNodes,
    AddrClass::McSolicited,
    AddrClass::Mc8,
    AddrClass::Mc32,
    AddrClass::Mc48,
    AddrClass::McFull,
    AddrClass::McK(2),
    AddrClass::McK(3),
    AddrClass::McK(4),
    AddrClass::McK(5),
    AddrClass::McK(6),
    AddrClass::McK(7),
    AddrClass::McK(8),
    AddrClass::McK(9),
    AddrClass::McK(10),
    AddrClass::McK(11),
    AddrClass::McK(12),
    AddrClass::McK(13),
];
const MCK_NAMES: [&str; 14] =
    ["", "", "mc-k2", "mc-k3", "mc-k4", "mc-k5", "mc-k6", "mc-k7", "mc-k8", "mc-k9", "mc-k10", "mc-k11", "mc-k12", "mc-k13"];
impl AddrClass {
    pub fn name(self) -> &'static str {
        match self {
            AddrClass::LlHw => "ll-hw",
            AddrClass::Ll16 => "ll-16",
            AddrClass::Ll64 => "ll-64",
            AddrClass::Global => "global",
            AddrClass::Ctx => "ctx",
            AddrClass::LlWideA => "fe80-0-0-1",
            AddrClass::LlWideB => "fe90",
            AddrClass::McAllNodes => "mc-all-nodes",
            AddrClass::McSolicited => "mc-solicited",
            AddrClass::Mc8 => "mc-8bit",
            AddrClass::Mc32 => "mc-32bit",
            AddrClass::Mc48 => "mc-48bit",
            AddrClass::McFull => "mc-full",
            AddrClass::McK(k) => MCK_NAMES[(k as usize).min(13)],
        }
    }
    pub fn from_name(s: &str) -> AddrClass {
        for c in UNICAST_CLASSES.iter().chain(MCAST_CLASSES.iter()) {
            if c.name() == s {
                return *c;
            }
        }
        AddrClass::LlHw
    }
    pub fn is_mcast(self) -> bool {
        MCAST_CLASSES.contains(&self)
    }
    /// does the receiver need `set_any_ip(true)` to accept this destination? (joining a group
    /// would make the 802.15.4 interface emit an MLD report, see the `mld` part)
    /// does the receiver join this group?
    pub fn needs_join(self) -> bool {
        matches!(self, AddrClass::McK(_))
    }
    pub fn needs_any_ip(self) -> bool {
        matches!(self, AddrClass::Mc8 | AddrClass::Mc32 | AddrClass::Mc48 | AddrClass::McFull)
    }
}

/// node 0 = S (sender), 1 = R (receiver), 2 = T (a third node, "ingress" part only)
pub fn ext_hw(node: usize) -> [u8; 8] {
    match node {
        0 => [0x1a, 0x0b, 0x42, 0x42, 0x42, 0xa1, 0xb1, 0x01],
        1 => [0x1a, 0x0b, 0x42, 0x42, 0x42, 0xa2, 0xb2, 0x02],
        _ => [0x1a, 0x0b, 0x42, 0x42, 0x42, 0xa3, 0xb3, 0x03],
    }
}
pub fn short_hw(node: usize) -> [u8; 2] {
    [0x5a, 0x01 + node as u8]
}
/// the address `Interface::set_hardware_addr` switches the sender to in the "hwchg" part
pub fn changed_hw(kind: HwKind) -> Ieee802154Address {
    match kind {
        HwKind::Ext => Ieee802154Address::Extended([0x1a, 0x0b, 0x42, 0x42, 0x42, 0xa9, 0xb9, 0x09]),
        HwKind::Short => Ieee802154Address::Short([0x5a, 0x09]),
    }
}
/// interface identifier a node would derive from its link-layer address (RFC 4944 §6)
pub fn iid_of(node: usize, hw: HwKind) -> [u8; 8] {
    match hw {
        HwKind::Ext => {
            let mut b = ext_hw(node);
            b[0] ^= 0x02;
            b
        }
        HwKind::Short => {
            let s = short_hw(node);
            [0, 0, 0, 0xff, 0xfe, 0, s[0], s[1]]
        }
    }
}
fn mk(prefix: [u8; 8], iid: [u8; 8]) -> Ipv6Address {
    let mut b = [0u8; 16];
    b[..8].copy_from_slice(&prefix);
    b[8..].copy_from_slice(&iid);
    Ipv6Address::from_octets(b)
}
pub const LL_PREFIX: [u8; 8] = [0xfe, 0x80, 0, 0, 0, 0, 0, 0];
pub const GLOBAL_PREFIX: [u8; 8] = [0x20, 0x01, 0x0d, 0xb8, 0, 0, 0, 1];
pub const CTX_PREFIX: [u8; 8] = [0xfd, 0, 0, 0, 0, 0, 0, 0xaa];
pub const WIDE_A_PREFIX: [u8; 8] = [0xfe, 0x80, 0, 0, 0, 0, 0, 1];
pub const WIDE_B_PREFIX: [u8; 8] = [0xfe, 0x90, 0, 0, 0, 0, 0, 0];

/// unicast address of class `c` owned by node `node`
pub fn unicast_addr(node: usize, hw: HwKind, c: AddrClass) -> Ipv6Address {
    let n = 1 + node as u8;
    match c {
        AddrClass::LlHw => mk(LL_PREFIX, iid_of(node, hw)),
        AddrClass::Ll16 => mk(LL_PREFIX, [0, 0, 0, 0xff, 0xfe, 0, 0x77, n]),
        AddrClass::Ll64 => mk(LL_PREFIX, [0x12, 0x34, 0x56, 0x78, 0x9a, 0xbc, 0xde, n]),
        AddrClass::Global => mk(GLOBAL_PREFIX, iid_of(node, hw)),
        AddrClass::Ctx => mk(CTX_PREFIX, iid_of(node, hw)),
        AddrClass::LlWideA => mk(WIDE_A_PREFIX, [0, 0, 0, 0, 0, 0, 0xab, 0xc0 + n]),
        AddrClass::LlWideB => mk(WIDE_B_PREFIX, [0, 0, 0, 0xff, 0xfe, 0, 0xbe, 0xe0 + n]),
        _ => panic!("not a unicast class"),
    }
}
/// destination address for class `c` when the receiver is node 1 with hardware kind `r_hw`
pub fn dst_addr(r_hw: HwKind, c: AddrClass) -> Ipv6Address {
    match c {
        AddrClass::McAllNodes => Ipv6Address::new(0xff02, 0, 0, 0, 0, 0, 0, 1),
        AddrClass::McSolicited => {
            let a = unicast_addr(1, r_hw, AddrClass::LlHw).octets();
            Ipv6Address::from_octets([0xff, 0x02, 0, 0, 0, 0, 0, 0, 0, 0, 0, 0x01, 0xff, a[13], a[14], a[15]])
        }
        AddrClass::Mc8 => Ipv6Address::new(0xff02, 0, 0, 0, 0, 0, 0, 0xfb),
        AddrClass::Mc32 => Ipv6Address::new(0xff05, 0, 0, 0, 0, 0, 1, 3),
        AddrClass::Mc48 => Ipv6Address::new(0xff0e, 0, 0, 0, 0, 1, 0xff00, 0x1234),
        AddrClass::McFull => Ipv6Address::new(0xff05, 0, 0, 1, 2, 3, 4, 5),
        AddrClass::McK(k) => {
            let mut b = [0u8; 16];
            b[0] = 0xff;
            b[1] = 0x35;
            b[(k as usize).clamp(2, 13)] = 0x80;
            b[14] = 0x12;
            b[15] = 0x34;
            Ipv6Address::from_octets(b)
        }
        _ => unicast_addr(1, r_hw, c),
    }
}

#[derive(Clone, Copy, PartialEq, Eq, Debug, PartialOrd, Ord, Hash)]
pub enum Proto {
    Udp,
    Icmp,
    Tcp,
}
#[derive(Clone, Debug, PartialEq, Eq)]
pub struct WorldCfg {
    pub med: Med,
    /// `DeviceCapabilities::max_transmission_unit` of both devices
    pub mtu: usize,
    pub pan: bool,
    pub s_hw: HwKind,
    pub r_hw: HwKind,
    /// further addresses (besides LlHw) configured on S / R (IFACE_MAX_ADDR_COUNT may be 2)
    pub s_extra: Vec<AddrClass>,
    pub r_extra: Vec<AddrClass>,
    /// octet every transmit buffer is pre-filled with before smoltcp writes the frame
    pub fill: u8,
    /// "ingress" part: every node also gets an ICMP socket and a large warm-up socket (to send
    /// the stimulus), and S's raw socket watches ICMPv6 instead of UDP (a raw UDP socket would
    /// suppress the port-unreachable reply)
    pub stimulus_sockets: bool,
    /// "twosock" part: a second UDP socket on every node
    pub two_sockets: bool,
    pub r_any_ip: bool,
    /// multicast groups R joins
    pub r_join: Vec<Ipv6Address>,
    pub proto: Proto,
    pub tcp_buf: usize,
}

// ---------------------------------------------------------------------------------------
// Device: like sim::SimDevice, but every transmit buffer is pre-filled with `fill` (0xA5) so
// that header bits/octets smoltcp fails to write are not accidentally zero.
// ---------------------------------------------------------------------------------------

pub struct FillDevice {
    pub medium: Medium,
    pub mtu: usize,
    pub fill: u8,
    pub rx: VecDeque<Vec<u8>>,
    pub tx: Vec<(i64, Vec<u8>)>,
    /// remaining successful `transmit()` calls (back-pressure); None = unlimited
    pub budget: Option<usize>,
}
impl FillDevice {
    pub fn new(medium: Medium, mtu: usize, fill: u8) -> FillDevice {
        FillDevice { medium, mtu, fill, rx: VecDeque::new(), tx: Vec::new(), budget: None }
    }
    pub fn take_tx(&mut self) -> Vec<(i64, Vec<u8>)> {
        std::mem::take(&mut self.tx)
    }
}
pub struct FillRx(Vec<u8>);
pub struct FillTx<'a> {
    tx: &'a mut Vec<(i64, Vec<u8>)>,
    ts: i64,
    fill: u8,
}
impl phy::RxToken for FillRx {
    fn consume<R, F: FnOnce(&[u8]) -> R>(self, f: F) -> R {
        f(&self.0)
    }
}
impl<'a> phy::TxToken for FillTx<'a> {
    fn consume<R, F: FnOnce(&mut [u8]) -> R>(self, len: usize, f: F) -> R {
        let mut buf = vec![self.fill; len];
        let r = f(&mut buf);
        self.tx.push((self.ts, buf));
        r
    }
}
impl Device for FillDevice {
    type RxToken<'a> = FillRx;
    type TxToken<'a> = FillTx<'a>;
    fn capabilities(&self) -> DeviceCapabilities {
        let mut c = DeviceCapabilities::default();
        c.medium = self.medium;
        c.max_transmission_unit = self.mtu;
        c
    }
    fn receive(&mut self, ts: Instant) -> Option<(FillRx, FillTx<'_>)> {
        let f = self.rx.pop_front()?;
        Some((FillRx(f), FillTx { tx: &mut self.tx, ts: ts.total_micros(), fill: self.fill }))
    }
    fn transmit(&mut self, ts: Instant) -> Option<FillTx<'_>> {
        match self.budget {
            Some(0) => return None,
            Some(ref mut n) => *n -= 1,
            None => {}
        }
        Some(FillTx { tx: &mut self.tx, ts: ts.total_micros(), fill: self.fill })
    }
}

pub struct Node {
    pub iface: Interface,
    pub dev: FillDevice,
    pub sockets: SocketSet<'static>,
    pub udp: SocketHandle,
    /// a second UDP socket, added AFTER `udp` (served later in an egress pass); "twosock" part
    pub udp2: Option<SocketHandle>,
    pub warm: SocketHandle,
    pub raw: SocketHandle,
    pub icmp: Option<SocketHandle>,
    pub tcp: Option<SocketHandle>,
    pub addrs: Vec<Ipv6Address>,
    pub per_poll: Option<usize>,
}

fn udp_sock(meta: usize, bytes: usize) -> udp::Socket<'static> {
    udp::Socket::new(
        udp::PacketBuffer::new(vec![udp::PacketMetadata::EMPTY; meta], vec![0u8; bytes]),
        udp::PacketBuffer::new(vec![udp::PacketMetadata::EMPTY; meta], vec![0u8; bytes]),
    )
}

impl Node {
    fn new(node: usize, cfg: &WorldCfg) -> Node {
        let (hw, extra) = if node == 0 { (cfg.s_hw, cfg.s_extra.clone()) } else { (cfg.r_hw, cfg.r_extra.clone()) };
        let medium = match cfg.med {
            Med::Lowpan => Medium::Ieee802154,
            Med::Ip => Medium::Ip,
        };
        let mut dev = FillDevice::new(medium, cfg.mtu, cfg.fill);
        let hwaddr = match cfg.med {
            Med::Ip => HardwareAddress::Ip,
            Med::Lowpan => HardwareAddress::Ieee802154(match hw {
                HwKind::Ext => Ieee802154Address::Extended(ext_hw(node)),
                HwKind::Short => Ieee802154Address::Short(short_hw(node)),
            }),
        };
        let mut c = Config::new(hwaddr);
        c.random_seed = 0x1111_2222_3333_4444u64.wrapping_mul(1 + node as u64);
        if cfg.med == Med::Lowpan && cfg.pan {
            c.pan_id = Some(Ieee802154Pan(PAN));
        }
        let mut iface = Interface::new(c, &mut dev, Instant::from_micros(0));
        let mut addrs = vec![unicast_addr(node, hw, AddrClass::LlHw)];
        for x in extra {
            let a = unicast_addr(node, hw, x);
            if x != AddrClass::LlHw && !addrs.contains(&a) {
                addrs.push(a);
            }
        }
        iface.update_ip_addrs(|a| {
            for ad in &addrs {
                a.push(IpCidr::new(IpAddress::Ipv6(*ad), 64)).unwrap();
            }
        });
        // everything off-link goes via the peer's LlHw address (so that mixed address classes can
        // talk in both directions); identical in both worlds
        let peer_hw = if node == 0 { cfg.r_hw } else { cfg.s_hw };
        let _ = iface.routes_mut().add_default_ipv6_route(unicast_addr(if node == 0 { 1 } else { 0 }, peer_hw, AddrClass::LlHw));
        if cfg.med == Med::Lowpan {
            let _ = iface.sixlowpan_address_context_mut().push(SixlowpanAddressContext(CTX_PREFIX));
        }
        if node == 1 {
            for g in &cfg.r_join {
                iface.join_multicast_group(IpAddress::Ipv6(*g)).expect("multicast group table full");
            }
        }
        if node == 1 && cfg.r_any_ip {
            iface.set_any_ip(true);
        }
        let mut sockets = SocketSet::new(vec![]);
        let udp = sockets.add(udp_sock(8, 8192));
        let udp2 = if cfg.two_sockets { Some(sockets.add(udp_sock(4, 4096))) } else { None };
        let mut w = if cfg.stimulus_sockets { udp_sock(4, 4096) } else { udp_sock(4, 256) };
        w.bind(WARM_PORT).unwrap();
        let warm = sockets.add(w);
        let rproto = match cfg.proto {
            Proto::Udp if cfg.stimulus_sockets && node == 0 => IpProtocol::Icmpv6,
            Proto::Udp => IpProtocol::Udp,
            Proto::Icmp => IpProtocol::Icmpv6,
            Proto::Tcp => IpProtocol::Tcp,
        };
        let raw = sockets.add(raw::Socket::new(
            Some(IpVersion::Ipv6),
            Some(rproto),
            raw::PacketBuffer::new(vec![raw::PacketMetadata::EMPTY; 32], vec![0u8; 16384]),
            raw::PacketBuffer::new(vec![raw::PacketMetadata::EMPTY; 1], vec![0u8; 16]),
        ));
        let icmp = if cfg.proto == Proto::Icmp || cfg.stimulus_sockets {
            let mut s = icmp::Socket::new(
                icmp::PacketBuffer::new(vec![icmp::PacketMetadata::EMPTY; 4], vec![0u8; 4096]),
                icmp::PacketBuffer::new(vec![icmp::PacketMetadata::EMPTY; 4], vec![0u8; 4096]),
            );
            s.bind(icmp::Endpoint::Ident(ICMP_IDENT)).unwrap();
            Some(sockets.add(s))
        } else {
            None
        };
        let tcp = if cfg.proto == Proto::Tcp {
            let s = tcp::Socket::new(
                tcp::SocketBuffer::new(vec![0u8; cfg.tcp_buf]),
                tcp::SocketBuffer::new(vec![0u8; cfg.tcp_buf]),
            );
            Some(sockets.add(s))
        } else {
            None
        };
        Node { iface, dev, sockets, udp, udp2, warm, raw, icmp, tcp, addrs, per_poll: None }
    }
    pub fn poll(&mut self, now: i64) {
        if let Some(n) = self.per_poll {
            self.dev.budget = Some(n);
        }
        self.iface.poll(Instant::from_micros(now), &mut self.dev, &mut self.sockets);
    }
    pub fn poll_at(&mut self, now: i64) -> Option<i64> {
        self.iface.poll_at(Instant::from_micros(now), &self.sockets).map(|t| t.total_micros())
    }
    fn drain_raw(&mut self, out: &mut Vec<Vec<u8>>) {
        let s = self.sockets.get_mut::<raw::Socket>(self.raw);
        while let Ok(p) = s.recv() {
            out.push(p.to_vec());
        }
    }
}

/// one datagram as seen by a UDP socket
#[derive(Clone, Debug, PartialEq, Eq)]
pub struct UdpObs {
    pub payload: Vec<u8>,
    pub src: [u8; 16],
    pub sport: u16,
    pub local: [u8; 16],
}
/// one message as seen by an ICMP socket
#[derive(Clone, Debug, PartialEq, Eq)]
pub struct IcmpObs {
    pub msg: Vec<u8>,
    pub src: [u8; 16],
}

pub fn v6(a: IpAddress) -> [u8; 16] {
    match a {
        IpAddress::Ipv6(a) => a.octets(),
        #[allow(unreachable_patterns)]
        _ => [0; 16],
    }
}

pub struct World {
    pub cfg: WorldCfg,
    pub s: Node,
    pub r: Node,
    pub now: i64,
    /// frames since the last `clear_logs()`
    pub s2r: Vec<Vec<u8>>,
    pub r2s: Vec<Vec<u8>>,
    /// (direction, frame) of every 802.15.4 frame longer than MAX_FRAME_NO_FCS
    pub too_long: Vec<(char, Vec<u8>)>,
    pub raw_r: Vec<Vec<u8>>,
    pub raw_s: Vec<Vec<u8>>,
    pub total_frames: u64,
    pub polls: u64,
}

impl World {
    pub fn new(cfg: &WorldCfg) -> World {
        World::with_peer(cfg, 1)
    }
    /// S joined with node `peer` (1 = R, 2 = the third node T, configured like R)
    pub fn with_peer(cfg: &WorldCfg, peer: usize) -> World {
        World {
            cfg: cfg.clone(),
            s: Node::new(0, cfg),
            r: Node::new(peer, cfg),
            now: 1000,
            s2r: vec![],
            r2s: vec![],
            too_long: vec![],
            raw_r: vec![],
            raw_s: vec![],
            total_frames: 0,
            polls: 0,
        }
    }
    pub fn clear_logs(&mut self) {
        self.s2r.clear();
        self.r2s.clear();
        self.raw_r.clear();
        self.raw_s.clear();
    }
    /// one exchange round: S polls, its frames go to R, R polls, its frames go to S
    pub fn round(&mut self) -> bool {
        let mut moved = false;
        self.s.poll(self.now);
        for (_, f) in self.s.dev.take_tx() {
            if self.cfg.med == Med::Lowpan && f.len() > MAX_FRAME_NO_FCS {
                self.too_long.push(('S', f.clone()));
            }
            self.s2r.push(f.clone());
            self.r.dev.rx.push_back(f);
            moved = true;
            self.total_frames += 1;
        }
        self.r.poll(self.now);
        for (_, f) in self.r.dev.take_tx() {
            if self.cfg.med == Med::Lowpan && f.len() > MAX_FRAME_NO_FCS {
                self.too_long.push(('R', f.clone()));
            }
            self.r2s.push(f.clone());
            self.s.dev.rx.push_back(f);
            moved = true;
            self.total_frames += 1;
        }
        self.polls += 2;
        let mut rr = std::mem::take(&mut self.raw_r);
        self.r.drain_raw(&mut rr);
        self.raw_r = rr;
        let mut rs = std::mem::take(&mut self.raw_s);
        self.s.drain_raw(&mut rs);
        self.raw_s = rs;
        self.now += STEP_US;
        moved
    }
    /// poll to quiescence (the 6LoWPAN sender emits one fragment per egress pass). Returns false
    /// if frames were still flowing after `max_rounds`.
    pub fn settle(&mut self, max_rounds: usize) -> bool {
        let mut idle = 0;
        for _ in 0..max_rounds {
            if self.round() {
                idle = 0;
            } else {
                idle += 1;
                if idle >= 2 {
                    return true;
                }
            }
        }
        false
    }

    pub fn udp_rebind(&mut self, sport: u16, dport: u16, hl: u8) {
        let s = self.s.sockets.get_mut::<udp::Socket>(self.s.udp);
        s.close();
        s.bind(sport).unwrap();
        s.set_hop_limit(Some(hl));
        let r = self.r.sockets.get_mut::<udp::Socket>(self.r.udp);
        r.close();
        r.bind(dport).unwrap();
    }
    /// enqueue one datagram on S's socket; returns whether the socket accepted it
    pub fn udp_send(&mut self, src: Ipv6Address, dst: Ipv6Address, dport: u16, payload: &[u8]) -> bool {
        let s = self.s.sockets.get_mut::<udp::Socket>(self.s.udp);
        let mut meta = udp::UdpMetadata::from(IpEndpoint::new(IpAddress::Ipv6(dst), dport));
        meta.local_address = Some(IpAddress::Ipv6(src));
        s.send_slice(payload, meta).is_ok()
    }
    pub fn udp_drain(node: &mut Node, h: SocketHandle) -> Vec<UdpObs> {
        let s = node.sockets.get_mut::<udp::Socket>(h);
        let mut out = vec![];
        while let Ok((p, m)) = s.recv() {
            out.push(UdpObs {
                payload: p.to_vec(),
                src: v6(m.endpoint.addr),
                sport: m.endpoint.port,
                local: m.local_address.map(v6).unwrap_or([0; 16]),
            });
        }
        out
    }
    pub fn icmp_drain(node: &mut Node) -> Vec<IcmpObs> {
        let mut out = vec![];
        if let Some(h) = node.icmp {
            let s = node.sockets.get_mut::<icmp::Socket>(h);
            while let Ok((p, a)) = s.recv() {
                out.push(IcmpObs { msg: p.to_vec(), src: v6(a) });
            }
        }
        out
    }
    /// Send one tiny datagram between the warm-up sockets so that the real NS/NA exchange fills
    /// the neighbor caches. Returns whether the datagram arrived.
    pub fn warm(&mut self, from_s: bool, src: Ipv6Address, dst: Ipv6Address) -> bool {
        {
            let n = if from_s { &mut self.s } else { &mut self.r };
            let s = n.sockets.get_mut::<udp::Socket>(n.warm);
            let mut meta = udp::UdpMetadata::from(IpEndpoint::new(IpAddress::Ipv6(dst), WARM_PORT));
            meta.local_address = Some(IpAddress::Ipv6(src));
            let _ = s.send_slice(&[0x77], meta);
        }
        // A neighbor advertisement can itself be dropped while ITS destination is being resolved;
        // the solicitation is repeated after the 1 s discovery silent time: give it 3 rounds.
        for attempt in 0..3 {
            self.settle(40);
            let n = if from_s { &mut self.r } else { &mut self.s };
            let h = n.warm;
            if !World::udp_drain(n, h).is_empty() {
                return true;
            }
            if attempt < 2 {
                self.now += 1_050_000;
            }
        }
        false
    }
    /// drop whatever is still queued on a warm-up socket (unresolvable destination)
    pub fn warm_reset(&mut self, on_s: bool) {
        let n = if on_s { &mut self.s } else { &mut self.r };
        let s = n.sockets.get_mut::<udp::Socket>(n.warm);
        s.close();
        s.bind(WARM_PORT).unwrap();
    }
}

// ---------------------------------------------------------------------------------------
// Independent (no smoltcp::wire) view of 802.15.4 / RFC 4944 fragment headers. Used for
// evidence (fragment histogram), for picking the fragment frames in the permutation part and
// for readable violation details -- never as the oracle of what must be delivered.
// ---------------------------------------------------------------------------------------

/// link-layer source address octets of an 802.15.4 frame (as on the wire), None if absent
pub fn mac_src(f: &[u8]) -> Option<Vec<u8>> {
    if f.len() < 3 {
        return None;
    }
    let fcf = u16::from_le_bytes([f[0], f[1]]);
    let panid_comp = fcf & (1 << 6) != 0;
    let dst_mode = (fcf >> 10) & 3;
    let src_mode = (fcf >> 14) & 3;
    let mut n = 3 + match dst_mode {
        0 => 0,
        2 => 4,
        3 => 10,
        _ => return None,
    };
    let l = match src_mode {
        2 => 2,
        3 => 8,
        _ => return None,
    };
    if !panid_comp {
        n += 2;
    }
    f.get(n..n + l).map(|x| x.to_vec())
}

/// length of the 802.15.4 MAC header (IEEE 802.15.4-2006 §7.2.1), None if malformed
pub fn mac_hdr_len(f: &[u8]) -> Option<usize> {
    if f.len() < 3 {
        return None;
    }
    let fcf = u16::from_le_bytes([f[0], f[1]]);
    let panid_comp = fcf & (1 << 6) != 0;
    let dst_mode = (fcf >> 10) & 3;
    let src_mode = (fcf >> 14) & 3;
    let mut n = 3;
    n += match dst_mode {
        0 => 0,
        2 => 2 + 2,
        3 => 2 + 8,
        _ => return None,
    };
    n += match src_mode {
        0 => 0,
        2 => 2,
        3 => 8,
        _ => return None,
    };
    if src_mode != 0 && !panid_comp {
        n += 2;
    }
    if n > f.len() {
        return None;
    }
    Some(n)
}

#[derive(Clone, Copy, Debug, PartialEq, Eq)]
pub enum LowpanKind {
    Frag1 { size: u16, tag: u16 },
    FragN { size: u16, tag: u16, offset8: u8 },
    Iphc,
    Other,
}
pub fn lowpan_kind(f: &[u8]) -> LowpanKind {
    let Some(h) = mac_hdr_len(f) else { return LowpanKind::Other };
    let p = &f[h..];
    if p.is_empty() {
        return LowpanKind::Other;
    }
    match p[0] >> 3 {
        0b11000 if p.len() >= 4 => LowpanKind::Frag1 { size: u16::from_be_bytes([p[0] & 7, p[1]]), tag: u16::from_be_bytes([p[2], p[3]]) },
        0b11100 if p.len() >= 5 => {
            LowpanKind::FragN { size: u16::from_be_bytes([p[0] & 7, p[1]]), tag: u16::from_be_bytes([p[2], p[3]]), offset8: p[4] }
        }
        _ if p[0] >> 5 == 0b011 => LowpanKind::Iphc,
        _ => LowpanKind::Other,
    }
}
pub fn describe_frame(f: &[u8]) -> String {
    match lowpan_kind(f) {
        LowpanKind::Frag1 { size, tag } => format!("FRAG1 size={} tag={:#06x} len={}", size, tag, f.len()),
        LowpanKind::FragN { size, tag, offset8 } => format!("FRAGN size={} tag={:#06x} off={} len={}", size, tag, offset8 as usize * 8, f.len()),
        LowpanKind::Iphc => format!("IPHC len={}", f.len()),
        LowpanKind::Other => format!("other len={}", f.len()),
    }
}
