//! frag4 — C12 "IPv4 fragmentation and reassembly reproduce the datagram or deliver nothing".
//!
//! Parts (all on the REAL smoltcp `Interface`, observed only at the device and at the sockets):
//!  * tx/S1  single-datagram sweep (E2): every UDP payload length x MTU x medium, one datagram,
//!           polled to quiescence, frames checked by an independent reassembler.
//!           S1 and S1b also run with the device declaring checksum capabilities ipv4=Tx / Rx /
//!           None and all=Tx (CSUM_VARIANTS); the header checksum is judged iff the stack computes it.
//!  * tx/S1b sequential pairs (E2): two datagrams (udp / raw / ingress-triggered echo reply) one
//!           after the other, each run to quiescence (state left behind by the first must not
//!           leak into the second).
//!  * tx/S1d a socket datagram with fragments still pending (held after 1-2 polls) meets an
//!           ingress-triggered reply to the peer or to a second pre-resolved neighbour B; on
//!           Ethernet every frame's link-layer destination must be the hardware address of the
//!           neighbour owning its IP destination (also checked in every other tx part).
//!  * tx/S1e the poll_at-following application: it polls ONLY when the device received a frame or
//!           `poll_at` names a deadline (None = sleeps forever); single datagrams and ordered
//!           pairs (udp, raw, ingress-triggered echo reply; unlimited device and one-frame-per-poll
//!           device). When it stops, everything accepted must be completely on the wire; if the
//!           rest only comes out under unconditional polling: `C12/tx/complete/stalls-when-following-poll-at`.
//!           (All other tx parts poll unconditionally until nothing more comes out; the S2 BFS has
//!           both terminal events, `Quiesce` and `QuiesceFollow`.)
//!  * tx/S2  back-to-back (E1 BFS): two UDP sockets + raw socket + inbound oversized echo
//!           requests, interleaved with poll / poll_egress / ingress / device back-pressure.
//!  * rx     (E2): all permutations (+ one duplicate, + overlapping retransmission, + two
//!           interleaved datagrams, + two datagrams with the same id/source/protocol but
//!           different destinations, + a partial datagram that expires (the only place where
//!           time passes) before a second one arrives) of fragment sets built by our own fragmenter, delivered to
//!           an interface with a bound udp / raw socket.
//!
//!  * rx/oversize trains (only in the build variant with a 64 KiB reassembly buffer, the `asm32`
//!           part of ./check C12, which then runs nothing else): maximal-size fragment trains
//!           whose reassembled payload is the largest legal one (65515) or longer than any IPv4
//!           datagram; no panic, nothing delivered / answered for the impossible ones.
//!
//! Every call into smoltcp made by a sweep case / BFS step / rx case runs under catch_unwind: a
//! panic is reported as `C12/panic/<part>/<file>` with the failing case as replay, and the
//! remaining cases are still executed.
//!
//! Oracles never use `smoltcp::wire`; `Interface::verif_digest` is used for BFS fingerprints only.

use crate::core::*;
use crate::sim::*;
use serde_json::{json, Value};
use smoltcp::iface::{Config, Interface, SocketHandle, SocketSet};
use smoltcp::phy::{Checksum, ChecksumCapabilities, Medium};
use smoltcp::socket::{raw, udp};
use smoltcp::time::Instant;
use smoltcp::wire::{EthernetAddress, HardwareAddress, IpAddress, IpCidr, IpProtocol, IpVersion};

mod bfs;
mod oversize;
mod rx;
mod tx;
pub mod wire;

use wire::*;

pub(crate) const PEER_PORT: u16 = 2000;
pub(crate) const UDP_PORT0: u16 = 1000;

/// A real interface + device + socket set.
pub(crate) struct Net {
    pub iface: Interface,
    pub dev: SimDevice,
    pub sockets: SocketSet<'static>,
    pub eth: bool,
    pub ip_mtu: usize,
    pub polls: u64,
}

pub(crate) fn now() -> Instant {
    // no time passes anywhere in this harness (reassembly timeout never exceeded)
    Instant::from_millis(0)
}

impl Net {
    /// `ip_mtu` is the IP MTU; on Ethernet the device MTU is 14 bytes larger (smoltcp's
    /// `max_transmission_unit` includes the Ethernet header).
    pub fn new(eth: bool, ip_mtu: usize) -> Result<Net, String> {
        Net::new_id(eth, ip_mtu, None)
    }
    /// Like `new`, but the interface's IPv4 identification counter starts at `id_start`
    /// (Config::random_seed is chosen by inverting smoltcp's PCG32; the result is verified
    /// through the verif_digest hook and the next salt is tried when an earlier draw was zero).
    pub fn new_id(eth: bool, ip_mtu: usize, id_start: Option<u16>) -> Result<Net, String> {
        Net::new_full(eth, ip_mtu, id_start, 0)
    }
    /// ... and with the device declaring checksum capabilities variant `csum` (see CSUM_VARIANTS)
    pub fn new_full(eth: bool, ip_mtu: usize, id_start: Option<u16>, csum: u8) -> Result<Net, String> {
        let Some(want) = id_start else { return Net::new_seed(eth, ip_mtu, 0x5eed_c12, csum) };
        for salt in 0..64u64 {
            // rand_u16 = (n ^ (n >> 16)) as u16; with n < 0x10000 that is n itself; ipv4_id is the
            // third draw of Interface::new (802.15.4 sequence number, 6LoWPAN tag, ipv4_id)
            let seed = crate::sim::seed_for_nth_output(want as u32, 3, salt);
            let net = Net::new_seed(eth, ip_mtu, seed, csum)?;
            if net.iface.verif_digest().contains(&format!(" ipv4_id={} ", want)) {
                return Ok(net);
            }
        }
        Err(format!("could not find a seed that starts the IPv4 identification counter at {}", want))
    }
    fn new_seed(eth: bool, ip_mtu: usize, seed: u64, csum: u8) -> Result<Net, String> {
        let medium = if eth { Medium::Ethernet } else { Medium::Ip };
        let mut dev = SimDevice::new(medium, if eth { ip_mtu + 14 } else { ip_mtu });
        // the interface copies the capabilities when it is created
        dev.checksum = csum_caps(csum);
        let hw = if eth { HardwareAddress::Ethernet(EthernetAddress(OUR_MAC)) } else { HardwareAddress::Ip };
        let mut cfg = Config::new(hw);
        cfg.random_seed = seed;
        let mut iface = Interface::new(cfg, &mut dev, now());
        iface.update_ip_addrs(|a| {
            a.push(IpCidr::new(IpAddress::v4(OUR_IP[0], OUR_IP[1], OUR_IP[2], OUR_IP[3]), 24)).unwrap();
        });
        let mut net = Net { iface, dev, sockets: SocketSet::new(vec![]), eth, ip_mtu, polls: 0 };
        if eth {
            // pre-resolve the peer: smoltcp fills the neighbor cache from any ARP packet aimed at us
            net.dev.rx.push_back(arp_reply());
            // ... and a second neighbour B (10.0.0.3, 02:00:00:00:00:03)
            net.dev.rx.push_back(arp_reply_from(PEER_B_MAC, PEER_B_IP));
            net.poll();
            if !net.dev.tx.is_empty() {
                return Err("unexpected output while pre-resolving the neighbor".into());
            }
        }
        Ok(net)
    }
    pub fn dev_mtu(&self) -> usize {
        if self.eth {
            self.ip_mtu + 14
        } else {
            self.ip_mtu
        }
    }
    pub fn poll(&mut self) {
        self.polls += 1;
        self.iface.poll(now(), &mut self.dev, &mut self.sockets);
    }
    /// poll at an explicit instant (only the rx family "expired-then-reused" lets time pass)
    pub fn poll_t(&mut self, t: Instant) {
        self.polls += 1;
        self.iface.poll(t, &mut self.dev, &mut self.sockets);
    }
    pub fn poll_at_is_none(&mut self) -> bool {
        self.iface.poll_at(now(), &self.sockets).is_none()
    }
    pub fn add_udp(&mut self, port: u16, rx_meta: usize, rx_bytes: usize, tx_meta: usize, tx_bytes: usize) -> SocketHandle {
        let rxb = udp::PacketBuffer::new(vec![udp::PacketMetadata::EMPTY; rx_meta], vec![0u8; rx_bytes]);
        let txb = udp::PacketBuffer::new(vec![udp::PacketMetadata::EMPTY; tx_meta], vec![0u8; tx_bytes]);
        let mut s = udp::Socket::new(rxb, txb);
        s.bind(port).unwrap();
        self.sockets.add(s)
    }
    pub fn add_raw(&mut self, rx_meta: usize, rx_bytes: usize, tx_meta: usize, tx_bytes: usize) -> SocketHandle {
        let rxb = raw::PacketBuffer::new(vec![raw::PacketMetadata::EMPTY; rx_meta], vec![0u8; rx_bytes]);
        let txb = raw::PacketBuffer::new(vec![raw::PacketMetadata::EMPTY; tx_meta], vec![0u8; tx_bytes]);
        let s = raw::Socket::new(Some(IpVersion::Ipv4), Some(IpProtocol::Unknown(PROTO_RAW)), rxb, txb);
        self.sockets.add(s)
    }
    pub fn udp_send(&mut self, h: SocketHandle, payload: &[u8]) -> Result<(), String> {
        let s = self.sockets.get_mut::<udp::Socket>(h);
        s.send_slice(payload, (IpAddress::v4(PEER_IP[0], PEER_IP[1], PEER_IP[2], PEER_IP[3]), PEER_PORT))
            .map_err(|e| format!("{:?}", e))
    }
    /// `ip_payload` is sent in a raw IPv4 packet (header built by us, re-serialized by smoltcp)
    pub fn raw_send(&mut self, h: SocketHandle, ip_payload: &[u8]) -> Result<(), String> {
        let mut p = ipv4_header(0, false, 0, PROTO_RAW, OUR_IP, PEER_IP, ip_payload.len(), 64).to_vec();
        p.extend_from_slice(ip_payload);
        let s = self.sockets.get_mut::<raw::Socket>(h);
        s.send_slice(&p).map_err(|e| format!("{:?}", e))
    }
    /// queue an inbound IPv4 packet (wrapped for the medium)
    pub fn inject(&mut self, ip_packet: Vec<u8>) {
        self.dev.rx.push_back(inbound(self.eth, ip_packet));
    }
    /// queue an ICMP echo request of `icmp_len` bytes (header + data), as inbound fragments that
    /// each fit the MTU (our own fragmenter); returns the echo reply image we expect
    pub fn inject_echo_request(&mut self, remote_id: u16, ident: u16, seq: u16, data: &[u8]) -> Vec<u8> {
        self.inject_echo_request_from(PEER_IP, PEER_MAC, remote_id, ident, seq, data)
    }
    /// the same from an arbitrary neighbour (its IP source and, on Ethernet, its hardware source)
    pub fn inject_echo_request_from(&mut self, ip: [u8; 4], mac: [u8; 6], remote_id: u16, ident: u16, seq: u16, data: &[u8]) -> Vec<u8> {
        let req = icmp_echo(8, ident, seq, data);
        let piece = (self.ip_mtu - 20) / 8 * 8;
        let pkts = if 20 + req.len() <= self.ip_mtu {
            let mut p = ipv4_header(remote_id, false, 0, PROTO_ICMP, ip, OUR_IP, req.len(), 64).to_vec();
            p.extend_from_slice(&req);
            vec![p]
        } else {
            fragment(remote_id, PROTO_ICMP, ip, OUR_IP, &req, &even_cuts(req.len(), piece))
        };
        for p in pkts {
            self.dev.rx.push_back(inbound_from(self.eth, mac, p));
        }
        icmp_echo(0, ident, seq, data)
    }
}

/// Device checksum capability variants of the tx sweeps (index = `Step::Csum`).
pub(crate) const CSUM_VARIANTS: [&str; 5] = ["default", "ipv4=Tx", "ipv4=Rx", "ipv4=None", "all=Tx"];

pub(crate) fn csum_caps(v: u8) -> ChecksumCapabilities {
    let mut c = ChecksumCapabilities::default();
    match v {
        1 => c.ipv4 = Checksum::Tx,
        2 => c.ipv4 = Checksum::Rx,
        3 => c.ipv4 = Checksum::None,
        4 => {
            c.ipv4 = Checksum::Tx;
            c.udp = Checksum::Tx;
            c.tcp = Checksum::Tx;
            c.icmpv4 = Checksum::Tx;
            c.icmpv6 = Checksum::Tx;
        }
        _ => {}
    }
    c
}

/// Does a device with this capability value leave the checksum to the stack on transmit? Decided
/// on the enum value itself (not through smoltcp's `Checksum::tx()`, which is code under test).
pub(crate) fn stack_computes_on_tx(c: &Checksum) -> bool {
    match c {
        Checksum::Both | Checksum::Tx => true,
        Checksum::Rx | Checksum::None => false,
        #[allow(unreachable_patterns)]
        _ => false,
    }
}

/// Stable panic site for signatures: `core::panic_site()` (file without line), additionally cut
/// at the crate's `src/` so that the signature does not depend on where the subject tree lives.
pub(crate) fn stable_site(site: &str) -> String {
    match site.rfind("/src/") {
        Some(i) => site[i + 1..].to_string(),
        None => site.to_string(),
    }
}

pub(crate) fn medium_name(eth: bool) -> &'static str {
    if eth {
        "ethernet"
    } else {
        "ip"
    }
}

pub fn run(tier: Tier) -> i32 {
    let mut rep = Report::new("C12", tier);
    rep.assumptions.push("oracle = own IPv4/UDP/ICMP/ARP builders + parser + reassembler (src/frag4/wire.rs, wirecheck.rs), RFC 1071 checksum; trusted".into());
    rep.assumptions.push("no time passes (every call uses Instant 0: reassembly timeout and neighbor expiry are never reached), except in the rx family 'expired-then-reused' where the clock jumps once by timeout-1s / timeout / timeout+1s".into());
    rep.assumptions.push(format!(
        "build-time limits in effect: FRAGMENTATION_BUFFER_SIZE={} REASSEMBLY_BUFFER_SIZE={} REASSEMBLY_BUFFER_COUNT={} ASSEMBLER_MAX_SEGMENT_COUNT={}",
        smoltcp::config::FRAGMENTATION_BUFFER_SIZE,
        smoltcp::config::REASSEMBLY_BUFFER_SIZE,
        smoltcp::config::REASSEMBLY_BUFFER_COUNT,
        smoltcp::config::ASSEMBLER_MAX_SEGMENT_COUNT
    ));
    rep.assumptions.push("MTU values are IP MTUs; on Medium::Ethernet the device MTU is 14 bytes larger and two neighbours (peer 10.0.0.2 / 02:..:02 and B 10.0.0.3 / 02:..:03) are pre-resolved by unsolicited ARP replies".into());
    rep.assumptions.push("device checksum capabilities = default (everything computed/verified in software) except in tx/S1 and tx/S1b, which also run with ipv4=Tx, ipv4=Rx, ipv4=None and all=Tx; the IPv4 header checksum is judged iff the capability value is Both or Tx (the stack computes it)".into());
    if oversize::enabled() {
        // Build variant with a 64 KiB reassembly buffer (the `asm32` part of ./check C12): ONLY the
        // receive family "oversize trains" runs here; everything else is covered by the default
        // and `small` parts, whose evidence this part is merged into.
        rep.assumptions.push("this part (REASSEMBLY_BUFFER_SIZE >= 65535, i.e. the asm32 build variant) runs only the rx family 'oversize trains'; all other C12 parts run in the default and small variants".into());
        oversize::run(&mut rep);
        rep.cov(
            "rule",
            json!(format!(
                "build variant with REASSEMBLY_BUFFER_SIZE={} ASSEMBLER_MAX_SEGMENT_COUNT={} (asm32): every train listed in rx_oversize_trains.domain (media x targets x reassembled payload lengths x arrival orders), each on a fresh interface; 'states'/'transitions' = trains",
                smoltcp::config::REASSEMBLY_BUFFER_SIZE,
                smoltcp::config::ASSEMBLER_MAX_SEGMENT_COUNT
            )),
        );
        return rep.finish();
    }
    rep.cov(
        "rx_oversize_trains",
        json!(format!(
            "skipped in this build variant (REASSEMBLY_BUFFER_SIZE={}): the family needs the 64 KiB reassembly buffer of the asm32 variant, see variant_asm32 in the merged evidence",
            smoltcp::config::REASSEMBLY_BUFFER_SIZE
        )),
    );
    tx::run_s1(&mut rep, tier);
    tx::run_s1b(&mut rep, tier);
    tx::run_s1c(&mut rep, tier);
    tx::run_s1d(&mut rep, tier);
    tx::run_s1e(&mut rep, tier);
    bfs::run_s2(&mut rep, tier);
    rx::run_rx(&mut rep, tier);
    rep.cov(
        "rule",
        json!("tx/S1: every (medium, MTU, UDP payload length) listed in s1.domain, one datagram each on a fresh interface; tx/S1b: every ordered pair of (kind,len) listed in s1b.domain; tx/S1c: every ordered triple of (kind,len) listed in s1c.domain for every listed start value of the identification counter; tx/S2: BFS over event sequences (alphabet in s2.alphabet) up to the stated depth with state merging on verif_digest+sockets+device+model; rx: every permutation of every fragment set listed in rx.domain (plus one-duplicate multiset permutations, overlapping retransmission mixes, two interleaved datagrams, two same-key datagrams for different destinations, a partially received datagram that expires before another one arrives). 'states' = distinct inputs (sweeps) + distinct BFS states; 'transitions' = executions on the real stack (cases / BFS transitions)"),
    );
    rep.finish()
}

pub fn replay(art: &Value) -> i32 {
    let r = &art["replay"];
    if let Some(h) = r["harness"].as_str() {
        return bfs::replay(h, art);
    }
    match r["part"].as_str() {
        Some("s1e") | Some("s1d") | Some("s1") | Some("s1b") | Some("s1c") => tx::replay(r),
        Some("rx") if r["class"].as_str() == Some("oversize-trains") => oversize::replay(r),
        Some("rx") => rx::replay(r),
        _ => {
            eprintln!("MACHINERY ERROR: artefact has no known part/harness");
            2
        }
    }
}
